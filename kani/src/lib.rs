//! Kani harnesses on the *unmodified* pricelevel crate (path dependency on /repo).
//! Every harness here is loop-free over full-domain symbolic inputs, i.e. a complete proof of the
//! executable contract for the compiled code, and - more importantly - the source of concrete
//! counterexamples for the Verus obligations of the same name.
//!
//! Input order of every `match_against_*` harness (decoded by tools/verif.py from concrete playback):
//!   id:u64 price:u64 vis:u64 [hid:u64] side:bool ts:u64 tif_tag:u8 tif_gtd:u64 <variant fields> incoming:u64
#![allow(dead_code)]
#[path = "../../replay/src/oracle_c05.rs"]
pub mod oracle_c05;

#[path = "../../replay/src/oracle_misc.rs"]
pub mod oracle_misc;

#[cfg(kani)]
mod harness {
    use super::oracle_misc::*;
    use super::oracle_c05::*;
    use pricelevel::{OrderId, OrderType, PegReferenceType, Side, TimeInForce};

    fn any_side() -> Side { if kani::any::<bool>() { Side::Buy } else { Side::Sell } }
    fn any_tif() -> TimeInForce {
        let tag: u8 = kani::any();
        let gtd: u64 = kani::any();
        match tag % 5 { 0 => TimeInForce::Gtc, 1 => TimeInForce::Ioc, 2 => TimeInForce::Fok, 3 => TimeInForce::Gtd(gtd), _ => TimeInForce::Day }
    }
    fn any_peg() -> PegReferenceType {
        match kani::any::<u8>() % 4 { 0 => PegReferenceType::BestBid, 1 => PegReferenceType::BestAsk, 2 => PegReferenceType::MidPrice, _ => PegReferenceType::LastTrade }
    }
    fn run(o: OrderType<()>) {
        let incoming: u64 = kani::any();
        kani::assume(o.visible_quantity().checked_add(o.hidden_quantity()).is_some());
        let r = o.match_against(incoming);
        let c = c05_eval(&o, incoming, &r);
        macro_rules! chk { ($b:expr, $l:literal) => { kani::assert($b, $l); } }
        crate::c05_each!(c, chk);
    }

    #[kani::proof]
    fn match_against_standard() {
        let (id, price, vis): (u64, u64, u64) = (kani::any(), kani::any(), kani::any());
        run(OrderType::Standard { id: OrderId::from_u64(id), price, quantity: vis, side: any_side(), timestamp: kani::any(), time_in_force: any_tif(), extra_fields: () });
    }
    #[kani::proof]
    fn match_against_iceberg() {
        let (id, price, vis, hid): (u64, u64, u64, u64) = (kani::any(), kani::any(), kani::any(), kani::any());
        run(OrderType::IcebergOrder { id: OrderId::from_u64(id), price, visible_quantity: vis, hidden_quantity: hid, side: any_side(), timestamp: kani::any(), time_in_force: any_tif(), extra_fields: () });
    }
    #[kani::proof]
    fn match_against_postonly() {
        let (id, price, vis): (u64, u64, u64) = (kani::any(), kani::any(), kani::any());
        run(OrderType::PostOnly { id: OrderId::from_u64(id), price, quantity: vis, side: any_side(), timestamp: kani::any(), time_in_force: any_tif(), extra_fields: () });
    }
    #[kani::proof]
    fn match_against_trailingstop() {
        let (id, price, vis): (u64, u64, u64) = (kani::any(), kani::any(), kani::any());
        run(OrderType::TrailingStop { id: OrderId::from_u64(id), price, quantity: vis, side: any_side(), timestamp: kani::any(), time_in_force: any_tif(), trail_amount: kani::any(), last_reference_price: kani::any(), extra_fields: () });
    }
    #[kani::proof]
    fn match_against_pegged() {
        let (id, price, vis): (u64, u64, u64) = (kani::any(), kani::any(), kani::any());
        run(OrderType::PeggedOrder { id: OrderId::from_u64(id), price, quantity: vis, side: any_side(), timestamp: kani::any(), time_in_force: any_tif(), reference_price_offset: kani::any(), reference_price_type: any_peg(), extra_fields: () });
    }
    #[kani::proof]
    fn match_against_markettolimit() {
        let (id, price, vis): (u64, u64, u64) = (kani::any(), kani::any(), kani::any());
        run(OrderType::MarketToLimit { id: OrderId::from_u64(id), price, quantity: vis, side: any_side(), timestamp: kani::any(), time_in_force: any_tif(), extra_fields: () });
    }
    #[kani::proof]
    fn match_against_reserve() {
        let (id, price, vis, hid): (u64, u64, u64, u64) = (kani::any(), kani::any(), kani::any(), kani::any());
        let thr: u64 = kani::any();
        let has_amt: bool = kani::any();
        let amt: u64 = kani::any();
        let auto: bool = kani::any();
        run(OrderType::ReserveOrder { id: OrderId::from_u64(id), price, visible_quantity: vis, hidden_quantity: hid, side: any_side(), timestamp: kani::any(), time_in_force: any_tif(), replenish_threshold: thr, replenish_amount: if has_amt { Some(amt) } else { None }, auto_replenish: auto, extra_fields: () });
    }

    fn any_order() -> OrderType<()> {
        let (id, price, vis, hid): (u64, u64, u64, u64) = (kani::any(), kani::any(), kani::any(), kani::any());
        let side = any_side();
        let ts: u64 = kani::any();
        let tif = any_tif();
        let id = OrderId::from_u64(id);
        match kani::any::<u8>() % 7 {
            0 => OrderType::Standard { id, price, quantity: vis, side, timestamp: ts, time_in_force: tif, extra_fields: () },
            1 => OrderType::IcebergOrder { id, price, visible_quantity: vis, hidden_quantity: hid, side, timestamp: ts, time_in_force: tif, extra_fields: () },
            2 => OrderType::PostOnly { id, price, quantity: vis, side, timestamp: ts, time_in_force: tif, extra_fields: () },
            3 => OrderType::TrailingStop { id, price, quantity: vis, side, timestamp: ts, time_in_force: tif, trail_amount: kani::any(), last_reference_price: kani::any(), extra_fields: () },
            4 => OrderType::PeggedOrder { id, price, quantity: vis, side, timestamp: ts, time_in_force: tif, reference_price_offset: kani::any(), reference_price_type: any_peg(), extra_fields: () },
            5 => OrderType::MarketToLimit { id, price, quantity: vis, side, timestamp: ts, time_in_force: tif, extra_fields: () },
            _ => { let has: bool = kani::any(); let amt: u64 = kani::any();
                   OrderType::ReserveOrder { id, price, visible_quantity: vis, hidden_quantity: hid, side, timestamp: ts, time_in_force: tif, replenish_threshold: kani::any(), replenish_amount: if has { Some(amt) } else { None }, auto_replenish: kani::any(), extra_fields: () } }
        }
    }

    /// C07: with_reduced_quantity over every variant and every u64 (loop-free: complete)
    #[kani::proof]
    fn with_reduced_quantity_all() {
        let o = any_order();
        let q: u64 = kani::any();
        let r = o.with_reduced_quantity(q);
        let (id, sd, ou) = wrq_eval(&o, q, &r);
        kani::assert(id, "with_reduced_quantity.identity_kept");
        kani::assert(sd, "with_reduced_quantity.sets_display");
        kani::assert(ou, "with_reduced_quantity.others_unchanged");
    }

    /// C05: refresh_iceberg over every variant (loop-free: complete)
    #[kani::proof]
    fn refresh_iceberg_all() {
        let o = any_order();
        let a: u64 = kani::any();
        let r = o.refresh_iceberg(a);
        let (id, t, u) = refresh_eval(&o, a, &r);
        kani::assert(id, "refresh_iceberg.identity_kept");
        kani::assert(t, "refresh_iceberg.takes_from_hidden");
        kani::assert(u, "refresh_iceberg.other_types_unchanged");
    }

    /// C02: Side::opposite
    #[kani::proof]
    fn side_opposite_all() {
        let s = any_side();
        let o = s.opposite();
        kani::assert(o != s && o.opposite() == s, "Side.opposite.is_the_other_side");
    }

    /// C02: MatchResult::add_transaction keeps remaining = initial (-) quantity, saturating; completion flag exact
    #[kani::proof]
    #[kani::unwind(3)]
    fn match_result_add_transaction() {
        use pricelevel::{MatchResult, Transaction};
        let initial: u64 = kani::any();
        let q: u64 = kani::any();
        let mut r = MatchResult::new(OrderId::from_u64(1), initial);
        let t = Transaction { transaction_id: uuid::Uuid::nil(), taker_order_id: OrderId::from_u64(1), maker_order_id: OrderId::from_u64(2),
                              price: kani::any(), quantity: q, taker_side: any_side(), timestamp: kani::any() };
        r.add_transaction(t);
        kani::assert(r.remaining_quantity == initial.saturating_sub(q), "MatchResult.add_transaction.remaining_reduced_saturating");
        kani::assert(r.is_complete == (r.remaining_quantity == 0), "MatchResult.add_transaction.complete_iff_nothing_remains");
        kani::assert(r.transactions.len() == 1, "MatchResult.add_transaction.appends");
        kani::assert(q > initial || r.remaining_quantity as u128 + q as u128 == initial as u128, "MatchResult.add_transaction.remaining_is_initial_minus_sum");
    }
}
