import re
from ex import *
import os
ot=open(os.environ.get('OT','/repo/src/orders/order_type.rs')).read()
lines=ot.split('\n')
def strip(t):
    out=[]
    for l in t.split('\n'):
        if l.strip().startswith('///'): continue
        if l.strip().startswith('#[derive'):
            out.append('#[verifier::external_derive(Clone)]\n#[derive(Clone, Copy, PartialEq, Eq)]'); continue
        out.append(l)
    return '\n'.join(out)
enum_txt=strip('\n'.join(lines[13:164]))
def fn(src,name,contract='',ret=None,selfmut=False,extra_sig_sub=None,inv=None,entry=''):
    sig,body,s,e=get_fn(src,name)
    if selfmut: sig=sig.replace('&self','&mut self',1)
    if extra_sig_sub:
        for a,b in extra_sig_sub: sig=sig.replace(a,b)
    if ret:
        sig=re.sub(r'->\s*(.+?)\s*$', lambda m: '-> ('+ret+': '+m.group(1).strip()+')\n', sig, flags=re.S)
    if inv:
        for anchor,text in inv:
            assert anchor in body, anchor
            body=body.replace(anchor, anchor+'\n'+text+'\n',1)
    if entry:
        body='{'+entry+body[1:]
    return strip(sig.rstrip()+'\n'+contract+'\n'+body)
import os
lv=open(os.environ.get('LV','/repo/src/price_level/level.rs')).read()
oq=open('/repo/src/price_level/order_queue.rs').read()

PRE=open('pre1.rs').read()
parts=[PRE, enum_txt, open('clone_spec.rs').read()]
# OrderType accessors + match_against
acc='impl<T: Clone> OrderType<T> {\n'
acc+=fn(ot,'id','ensures r == self.spec_id()',ret='r')
acc+=fn(ot,'price','ensures r == self.spec_price()',ret='r')
acc+=fn(ot,'visible_quantity','ensures r == self.spec_vis()',ret='r')
acc+=fn(ot,'hidden_quantity','ensures r == self.spec_hid()',ret='r')
acc+=fn(ot,'side','ensures r == self.spec_side()',ret='r')
acc+=fn(ot,'timestamp','',ret='r')
acc+=fn(ot,'with_reduced_quantity',open('c_wrq.txt').read(),ret='r')
acc+=fn(ot,'match_against',open('c_match_against.txt').read(),ret='r')
acc+='}\n'
parts.append(acc)
parts.append(open('mid1.rs').read())
q='impl OrderQueue {\n'
q+=open('oq_spec.txt').read()
q+=fn(oq,'new','ensures r.m() == Map::<OrderId, Arc<OrderType<()>>>::empty(), r.t() == Seq::<OrderId>::empty()',ret='r')
q+=fn(oq,'push','ensures final(self).m() == old(self).m().insert(order.spec_id(), order), final(self).t() == old(self).t().push(order.spec_id())',selfmut=True)
q+=fn(oq,'pop',open('c_pop.txt').read(),ret='r',selfmut=True,inv=[('loop',open('i_pop.txt').read()),('return None; // Queue is empty','')],entry='\n        broadcast use lemma_subrange_contains;\n')
q+='}\n'
parts.append(q)
l='impl PriceLevel {\n'+open('lv_spec.txt').read()
l+=fn(lv,'add_order',open('c_add.txt').read(),ret='r',selfmut=True,inv=[('self.orders.push(order_arc.clone());','proof { lemma_sum_insert(old(self).m(), order.spec_id(), order_arc); assert(self.orders.t().last() == order.spec_id()); assert forall|k: OrderId| self.orders.m().contains_key(k) implies self.orders.t().contains(k) by { if k != order.spec_id() { assert(old(self).orders.t().contains(k)); let i = choose|i: int| 0 <= i < old(self).orders.t().len() && old(self).orders.t()[i] == k; assert(self.orders.t()[i] == k); } else { assert(self.orders.t()[self.orders.t().len() - 1] == k); } } }')])
l+=fn(lv,'match_order',open('c_match.txt').read(),ret='result',selfmut=True,extra_sig_sub=[('&UuidGenerator','&mut UuidGenerator')],inv=[('while remaining > 0',open('i_match.txt').read())])
l+='}\n'
parts.append(l)
parts.append('}\nfn main(){}\n')
if __name__=="__main__": open("seq1.rs","w").write("\n".join(parts))
