import re
from ex import *
from build1 import fn, strip, enum_txt, ot, lv, oq
PRE=open('pre1.rs').read()
parts=[PRE, enum_txt]
acc='impl<T: Clone> OrderType<T> {\n'
acc+=fn(ot,'id','ensures r == self.spec_id() no_unwind',ret='r')
acc+=fn(ot,'price','ensures r == self.spec_price()',ret='r')
acc+=fn(ot,'visible_quantity','ensures r == self.spec_vis()',ret='r')
acc+=fn(ot,'hidden_quantity','ensures r == self.spec_hid()',ret='r')
acc+=fn(ot,'side','ensures r == self.spec_side()',ret='r')
acc+=fn(ot,'timestamp','',ret='r')
acc+='''    #[verifier::external_body]
    pub fn with_reduced_quantity(&self, new_quantity: u64) -> (r: Self)
        ensures r.spec_id() == self.spec_id(), r.spec_vis() as int + r.spec_hid() as int <= u64::MAX as int
    { unimplemented!() }
    #[verifier::external_body]
    pub fn match_against(&self, incoming_quantity: u64) -> (r: (u64, Option<Self>, u64, u64))
'''+open('c_match_against.txt').read()+'''
    { unimplemented!() }
'''
acc+='}\n'
parts.append(acc)
parts.append(open('mid2.rs').read())
q='impl OrderQueue {\n'+open('oq_spec2.txt').read()
q+=fn(oq,'push','ensures final(self).out_vis() == old(self).out_vis() - order.spec_vis(), final(self).out_hid() == old(self).out_hid() - order.spec_hid(), final(self).out_cnt() == old(self).out_cnt() - 1 no_unwind',selfmut=True)
q+='#[verifier::exec_allows_no_decreases_clause]\n'+fn(oq,'pop','''ensures r matches Some(o) ==> final(self).out_vis() == old(self).out_vis() + o.spec_vis() && final(self).out_hid() == old(self).out_hid() + o.spec_hid() && final(self).out_cnt() == old(self).out_cnt() + 1 && o.spec_vis() as int + o.spec_hid() as int <= u64::MAX as int,
            r is None ==> final(self).out_vis() == old(self).out_vis() && final(self).out_hid() == old(self).out_hid() && final(self).out_cnt() == old(self).out_cnt()
        no_unwind''',ret='r',selfmut=True,inv=[('loop','invariant self.out_vis() == old(self).out_vis(), self.out_hid() == old(self).out_hid(), self.out_cnt() == old(self).out_cnt()')])
q+='''    pub fn find(&self, order_id: OrderId) -> (r: Option<Arc<OrderType<()>>>)
        ensures r matches Some(o) ==> o.spec_id() == order_id
    { self.orders.get_val(&order_id) }
    pub fn remove(&mut self, order_id: OrderId) -> (r: Option<Arc<OrderType<()>>>)
        ensures r matches Some(o) ==> o.spec_id() == order_id && final(self).out_vis() == old(self).out_vis() + o.spec_vis() && final(self).out_hid() == old(self).out_hid() + o.spec_hid() && final(self).out_cnt() == old(self).out_cnt() + 1 && o.spec_vis() as int + o.spec_hid() as int <= u64::MAX as int,
            r is None ==> final(self).out_vis() == old(self).out_vis() && final(self).out_hid() == old(self).out_hid() && final(self).out_cnt() == old(self).out_cnt()
        no_unwind
    { match self.orders.remove(&order_id) { Some(p) => Some(p.1), None => None } }
'''
q+='}\n'
parts.append(q)
l='impl PriceLevel {\n'+open('lv_spec2.txt').read()
ENTRY='\n        proof { use_type_invariant(&*self); }\n'
CONS='ensures final(self).cv() == old(self).cv(), final(self).ch() == old(self).ch(), final(self).cc() == old(self).cc()'
l+=fn(lv,'add_order',CONS,ret='r',selfmut=True,entry=ENTRY)
l+='#[verifier::exec_allows_no_decreases_clause]\n'+fn(lv,'match_order',CONS,ret='result',selfmut=True,extra_sig_sub=[('&UuidGenerator','&mut UuidGenerator')],inv=[('while remaining > 0','invariant self.cv() == old(self).cv(), self.ch() == old(self).ch(), self.cc() == old(self).cc(), self.cv() >= 0, self.ch() >= 0, self.cc() >= 0')],entry=ENTRY)
l+='#[verifier::exec_allows_no_decreases_clause]\n'+fn(lv,'update_order',CONS,ret='r',selfmut=True,entry=ENTRY)
l+='}\n'
parts.append(l)
parts.append('}\nfn main(){}\n')
open('conc1.rs','w').write('\n'.join(parts))
