pub open spec fn same_order<T: Clone>(a: OrderType<T>, b: OrderType<T>) -> bool {
    a.spec_id() == b.spec_id() && a.spec_price() == b.spec_price() && a.spec_side() == b.spec_side()
    && a.spec_vis() == b.spec_vis() && a.spec_hid() == b.spec_hid()
}
pub assume_specification<T: Clone> [<OrderType<T> as Clone>::clone] (e: &OrderType<T>) -> (r: OrderType<T>)
    ensures same_order(*e, r);
