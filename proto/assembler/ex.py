import re,sys
def lex_spans(src):
    """yield (kind,start,end) for comments/strings/chars so brace matching can skip them"""
    i=0;n=len(src);spans=[]
    while i<n:
        c=src[i]
        if src.startswith('//',i):
            j=src.find('\n',i); j=n if j<0 else j; spans.append(('c',i,j)); i=j
        elif src.startswith('/*',i):
            d=1;j=i+2
            while j<n and d>0:
                if src.startswith('/*',j): d+=1;j+=2
                elif src.startswith('*/',j): d-=1;j+=2
                else: j+=1
            spans.append(('c',i,j)); i=j
        elif c=='"':
            j=i+1
            while j<n and src[j]!='"':
                j+=2 if src[j]=='\\' else 1
            spans.append(('s',i,j+1)); i=j+1
        elif c=='r' and re.match(r'r#*"',src[i:]):
            m=re.match(r'r(#*)"',src[i:]); h=m.group(1); end=src.find('"'+h,i+len(m.group(0))); spans.append(('s',i,end+1+len(h))); i=end+1+len(h)
        elif c=="'":
            m=re.match(r"'(\\.[^']*|[^'\\])'",src[i:])
            if m: spans.append(('s',i,i+len(m.group(0)))); i+=len(m.group(0))
            else: i+=1
        else: i+=1
    return spans
def mask(src):
    b=list(src)
    for k,s,e in lex_spans(src):
        for j in range(s,e):
            if b[j] not in '\n': b[j]=' '
    return ''.join(b)
def find_block(src,start):
    m=mask(src); i=m.index('{',start); d=0
    for j in range(i,len(m)):
        if m[j]=='{': d+=1
        elif m[j]=='}':
            d-=1
            if d==0: return i,j+1
    raise Exception('unbalanced')
def get_fn(src,name,after=0):
    m=mask(src)
    mm=re.search(r'(pub\s+)?fn\s+'+name+r'\b',m[after:])
    s=after+mm.start(); b,e=find_block(src,s)
    return src[s:b],src[b:e],s,e
if __name__=='__main__':
    src=open(sys.argv[1]).read()
    sig,body,s,e=get_fn(src,sys.argv[2])
    print(sig+body)
