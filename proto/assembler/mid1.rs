pub type Ord_ = OrderType<()>;
pub open spec fn sum_vis(m: Map<OrderId, Arc<Ord_>>) -> nat
    decreases m.dom().len()
{
    if m.dom().len() == 0 { 0 } else {
        let k = m.dom().choose();
        m[k].spec_vis() as nat + sum_vis(m.remove(k))
    }
}
pub open spec fn sum_hid(m: Map<OrderId, Arc<Ord_>>) -> nat
    decreases m.dom().len()
{
    if m.dom().len() == 0 { 0 } else {
        let k = m.dom().choose();
        m[k].spec_hid() as nat + sum_hid(m.remove(k))
    }
}
pub proof fn lemma_sum_remove(m: Map<OrderId, Arc<Ord_>>, k: OrderId)
    requires m.contains_key(k)
    ensures sum_vis(m) == m[k].spec_vis() as nat + sum_vis(m.remove(k)),
            sum_hid(m) == m[k].spec_hid() as nat + sum_hid(m.remove(k)),
            m.remove(k).dom().len() == m.dom().len() - 1,
    decreases m.dom().len()
{
    let c = m.dom().choose();
    if m.dom().len() == 0 { assert(false); }
    else if c == k {}
    else {
        lemma_sum_remove(m.remove(c), k);
        lemma_sum_remove(m.remove(k), c);
        assert(m.remove(c).remove(k) =~= m.remove(k).remove(c));
    }
}
pub proof fn lemma_sum_insert(m: Map<OrderId, Arc<Ord_>>, k: OrderId, v: Arc<Ord_>)
    requires !m.contains_key(k)
    ensures sum_vis(m.insert(k, v)) == v.spec_vis() as nat + sum_vis(m),
            sum_hid(m.insert(k, v)) == v.spec_hid() as nat + sum_hid(m),
            m.insert(k, v).dom().len() == m.dom().len() + 1,
{
    lemma_sum_remove(m.insert(k, v), k);
    assert(m.insert(k, v).remove(k) =~= m);
}

pub broadcast proof fn lemma_subrange_contains(s: Seq<OrderId>, k: OrderId)
    requires s.len() > 0, s.contains(k), s[0] != k
    ensures #[trigger] s.subrange(1, s.len() as int).contains(k)
{
    let i = choose|i: int| 0 <= i < s.len() && s[i] == k;
    assert(s.subrange(1, s.len() as int)[i - 1] == k);
}
pub proof fn lemma_empty_dom(m: Map<OrderId, Arc<Ord_>>)
    requires forall|k: OrderId| !m.contains_key(k)
    ensures m.dom().len() == 0
{
    assert(m.dom() =~= Set::<OrderId>::empty());
}
#[verifier::external_body]
#[verifier::reject_recursive_types(K)]
#[verifier::reject_recursive_types(V)]
pub struct DashMap<K, V> { k: std::marker::PhantomData<(K, V)> }
impl<K, V> DashMap<K, V> {
    pub uninterp spec fn view(&self) -> Map<K, V>;
    #[verifier::external_body]
    pub fn new() -> (r: Self) ensures r@ == Map::<K, V>::empty() { unimplemented!() }
    #[verifier::external_body]
    pub fn insert(&mut self, k: K, v: V) -> (r: Option<V>)
        ensures final(self)@ == old(self)@.insert(k, v)
    { unimplemented!() }
    #[verifier::external_body]
    pub fn remove(&mut self, k: &K) -> (r: Option<(K, V)>)
        ensures
            old(self)@.contains_key(*k) ==> r == Some((*k, old(self)@[*k])) && final(self)@ == old(self)@.remove(*k),
            !old(self)@.contains_key(*k) ==> r.is_none() && final(self)@ == old(self)@,
    { unimplemented!() }
}
#[verifier::external_body]
#[verifier::reject_recursive_types(T)]
pub struct SegQueue<T> { k: std::marker::PhantomData<T> }
impl<T> SegQueue<T> {
    pub uninterp spec fn view(&self) -> Seq<T>;
    #[verifier::external_body]
    pub fn new() -> (r: Self) ensures r@ == Seq::<T>::empty() { unimplemented!() }
    #[verifier::external_body]
    pub fn push(&mut self, t: T) ensures final(self)@ == old(self)@.push(t) { unimplemented!() }
    #[verifier::external_body]
    pub fn pop(&mut self) -> (r: Option<T>)
        ensures old(self)@.len() == 0 ==> r.is_none() && final(self)@ == old(self)@,
                old(self)@.len() > 0 ==> r == Some(old(self)@[0]) && final(self)@ == old(self)@.subrange(1, old(self)@.len() as int)
    { unimplemented!() }
}
pub struct AtomicU64 { pub v: u64 }
impl AtomicU64 {
    #[verifier::external_body]
    pub fn new(x: u64) -> (r: Self) ensures r.v == x { unimplemented!() }
    #[verifier::external_body]
    pub fn fetch_add(&mut self, x: u64, o: Ordering) -> (r: u64)
        ensures r == old(self).v, final(self).v as int == (old(self).v as int + x as int) % 0x1_0000_0000_0000_0000
    { unimplemented!() }
    #[verifier::external_body]
    pub fn fetch_sub(&mut self, x: u64, o: Ordering) -> (r: u64)
        ensures r == old(self).v, final(self).v as int == (old(self).v as int - x as int) % 0x1_0000_0000_0000_0000
    { unimplemented!() }
    #[verifier::external_body]
    pub fn load(&self, o: Ordering) -> (r: u64) ensures r == self.v { unimplemented!() }
}
pub struct AtomicUsize { pub v: usize }
impl AtomicUsize {
    #[verifier::external_body]
    pub fn new(x: usize) -> (r: Self) ensures r.v == x { unimplemented!() }
    #[verifier::external_body]
    pub fn fetch_add(&mut self, x: usize, o: Ordering) -> (r: usize)
        ensures r == old(self).v, final(self).v as int == (old(self).v as int + x as int) % (usize::MAX as int + 1)
    { unimplemented!() }
    #[verifier::external_body]
    pub fn fetch_sub(&mut self, x: usize, o: Ordering) -> (r: usize)
        ensures r == old(self).v, final(self).v as int == (old(self).v as int - x as int) % (usize::MAX as int + 1)
    { unimplemented!() }
    #[verifier::external_body]
    pub fn load(&self, o: Ordering) -> (r: usize) ensures r == self.v { unimplemented!() }
}
pub struct PriceLevelStatistics { pub ghost added: int, pub ghost qty: int }
impl PriceLevelStatistics {
    #[verifier::external_body]
    pub fn record_order_added(&mut self) ensures final(self).added == old(self).added + 1, final(self).qty == old(self).qty { unimplemented!() }
    #[verifier::external_body]
    pub fn record_execution(&mut self, quantity: u64, price: u64, ts: u64) ensures final(self).qty == old(self).qty + quantity, final(self).added == old(self).added { unimplemented!() }
}
#[derive(Clone, Copy, PartialEq, Eq)]
pub struct Uuid(pub u128);
pub struct UuidGenerator { pub ghost counter: int }
impl UuidGenerator {
    #[verifier::external_body]
    pub fn next(&mut self) -> (r: Uuid) ensures final(self).counter == old(self).counter + 1 { unimplemented!() }
}
#[derive(Clone, Copy)]
pub struct Transaction { pub transaction_id: Uuid, pub taker_order_id: OrderId, pub maker_order_id: OrderId, pub price: u64, pub quantity: u64, pub taker_side: Side, pub timestamp: u64 }
impl Transaction {
    #[verifier::external_body]
    pub fn new(transaction_id: Uuid, taker_order_id: OrderId, maker_order_id: OrderId, price: u64, quantity: u64, taker_side: Side) -> (r: Self)
      ensures r.transaction_id == transaction_id, r.taker_order_id == taker_order_id, r.maker_order_id == maker_order_id, r.price == price, r.quantity == quantity, r.taker_side == taker_side
    { unimplemented!() }
}
pub open spec fn sum_q(s: Seq<Transaction>) -> nat decreases s.len() {
    if s.len() == 0 { 0 } else { sum_q(s.drop_last()) + s.last().quantity as nat }
}
pub struct MatchResult {
    pub order_id: OrderId,
    pub transactions: Vec<Transaction>,
    pub remaining_quantity: u64,
    pub is_complete: bool,
    pub filled_order_ids: Vec<OrderId>,
}
impl MatchResult {
    pub fn new(order_id: OrderId, initial_quantity: u64) -> (r: Self)
      ensures r.order_id == order_id, r.transactions@.len() == 0, r.remaining_quantity == initial_quantity, !r.is_complete, r.filled_order_ids@.len() == 0
    { Self { order_id, transactions: Vec::new(), remaining_quantity: initial_quantity, is_complete: false, filled_order_ids: Vec::new() } }
    pub fn add_transaction(&mut self, transaction: Transaction)
      ensures final(self).transactions@ == old(self).transactions@.push(transaction), final(self).order_id == old(self).order_id, final(self).filled_order_ids == old(self).filled_order_ids
    {
        self.remaining_quantity = self.remaining_quantity.saturating_sub(transaction.quantity);
        self.is_complete = self.remaining_quantity == 0;
        self.transactions.push(transaction);
    }
    pub fn add_filled_order_id(&mut self, order_id: OrderId)
      ensures final(self).filled_order_ids@ == old(self).filled_order_ids@.push(order_id), final(self).transactions == old(self).transactions, final(self).order_id == old(self).order_id
    { self.filled_order_ids.push(order_id); }
}
pub struct OrderQueue {
    orders: DashMap<OrderId, Arc<OrderType<()>>>,
    order_ids: SegQueue<OrderId>,
}
pub struct PriceLevel {
    price: u64,
    visible_quantity: AtomicU64,
    hidden_quantity: AtomicU64,
    order_count: AtomicUsize,
    orders: OrderQueue,
    stats: PriceLevelStatistics,
}
