pub type Ord_ = OrderType<()>;
// ---------------- weak (interference-tolerant) shims: only this call's own ledger is known
pub struct DashMap { pub ghost put_vis: int, pub ghost put_hid: int, pub ghost put_cnt: int,
                     pub ghost got_vis: int, pub ghost got_hid: int, pub ghost got_cnt: int }
impl DashMap {
    #[verifier::external_body]
    pub fn insert(&mut self, k: OrderId, v: Arc<Ord_>) -> (r: Option<Arc<Ord_>>)
        ensures r is None,
            final(self).put_vis == old(self).put_vis + v.spec_vis(), final(self).put_hid == old(self).put_hid + v.spec_hid(), final(self).put_cnt == old(self).put_cnt + 1,
            final(self).got_vis == old(self).got_vis, final(self).got_hid == old(self).got_hid, final(self).got_cnt == old(self).got_cnt,
        no_unwind
    { unimplemented!() }
    #[verifier::external_body]
    pub fn remove(&mut self, k: &OrderId) -> (r: Option<(OrderId, Arc<Ord_>)>)
        ensures
            final(self).put_vis == old(self).put_vis, final(self).put_hid == old(self).put_hid, final(self).put_cnt == old(self).put_cnt,
            r matches Some(p) ==> p.0 == *k && p.1.spec_id() == *k && p.1.spec_vis() as int + p.1.spec_hid() as int <= u64::MAX as int
                && final(self).got_vis == old(self).got_vis + p.1.spec_vis() && final(self).got_hid == old(self).got_hid + p.1.spec_hid() && final(self).got_cnt == old(self).got_cnt + 1,
            r is None ==> final(self).got_vis == old(self).got_vis && final(self).got_hid == old(self).got_hid && final(self).got_cnt == old(self).got_cnt,
        no_unwind
    { unimplemented!() }
    #[verifier::external_body]
    pub fn get_val(&self, k: &OrderId) -> (r: Option<Arc<Ord_>>)
        ensures r matches Some(o) ==> o.spec_id() == *k
    { unimplemented!() }
}
pub struct SegQueue { pub x: u8 }
impl SegQueue {
    #[verifier::external_body]
    pub fn push(&mut self, t: OrderId) no_unwind { unimplemented!() }
    #[verifier::external_body]
    pub fn pop(&mut self) -> (r: Option<OrderId>) no_unwind { unimplemented!() }
}
pub struct AtomicU64 { pub ghost net: int, pub ghost stores: int }
impl AtomicU64 {
    #[verifier::external_body]
    pub fn fetch_add(&mut self, x: u64, o: Ordering) -> (r: u64)
        ensures final(self).net == old(self).net + x, final(self).stores == old(self).stores no_unwind
    { unimplemented!() }
    #[verifier::external_body]
    pub fn fetch_sub(&mut self, x: u64, o: Ordering) -> (r: u64)
        ensures final(self).net == old(self).net - x, final(self).stores == old(self).stores no_unwind
    { unimplemented!() }
    #[verifier::external_body]
    pub fn load(&self, o: Ordering) -> (r: u64) { unimplemented!() }
}
pub struct AtomicUsize { pub ghost net: int, pub ghost stores: int }
impl AtomicUsize {
    #[verifier::external_body]
    pub fn fetch_add(&mut self, x: usize, o: Ordering) -> (r: usize)
        ensures final(self).net == old(self).net + x, final(self).stores == old(self).stores no_unwind
    { unimplemented!() }
    #[verifier::external_body]
    pub fn fetch_sub(&mut self, x: usize, o: Ordering) -> (r: usize)
        ensures final(self).net == old(self).net - x, final(self).stores == old(self).stores no_unwind
    { unimplemented!() }
}
pub struct PriceLevelStatistics { pub x: u8 }
impl PriceLevelStatistics {
    #[verifier::external_body]
    pub fn record_order_added(&mut self) no_unwind { unimplemented!() }
    #[verifier::external_body]
    pub fn record_order_removed(&mut self) no_unwind { unimplemented!() }
    #[verifier::external_body]
    pub fn record_execution(&mut self, quantity: u64, price: u64, ts: u64) no_unwind { unimplemented!() }
}
#[derive(Clone, Copy, PartialEq, Eq)]
pub struct Uuid(pub u128);
pub struct UuidGenerator { pub x: u8 }
impl UuidGenerator {
    #[verifier::external_body]
    pub fn next(&mut self) -> (r: Uuid) { unimplemented!() }
}
#[derive(Clone, Copy)]
pub struct Transaction { pub transaction_id: Uuid, pub taker_order_id: OrderId, pub maker_order_id: OrderId, pub price: u64, pub quantity: u64, pub taker_side: Side, pub timestamp: u64 }
impl Transaction {
    #[verifier::external_body]
    pub fn new(transaction_id: Uuid, taker_order_id: OrderId, maker_order_id: OrderId, price: u64, quantity: u64, taker_side: Side) -> (r: Self)
      ensures r.quantity == quantity
    { unimplemented!() }
}
pub struct MatchResult {
    pub order_id: OrderId,
    pub transactions: Vec<Transaction>,
    pub remaining_quantity: u64,
    pub is_complete: bool,
    pub filled_order_ids: Vec<OrderId>,
}
impl MatchResult {
    pub fn new(order_id: OrderId, initial_quantity: u64) -> (r: Self)
    { Self { order_id, transactions: Vec::new(), remaining_quantity: initial_quantity, is_complete: false, filled_order_ids: Vec::new() } }
    pub fn add_transaction(&mut self, transaction: Transaction)
    {
        self.remaining_quantity = self.remaining_quantity.saturating_sub(transaction.quantity);
        self.is_complete = self.remaining_quantity == 0;
        self.transactions.push(transaction);
    }
    pub fn add_filled_order_id(&mut self, order_id: OrderId)
    { self.filled_order_ids.push(order_id); }
}
pub enum PriceLevelError { InvalidOperation { message: String }, Other }
#[derive(Clone, Copy)]
pub enum OrderUpdate {
    UpdatePrice { order_id: OrderId, new_price: u64 },
    UpdateQuantity { order_id: OrderId, new_quantity: u64 },
    UpdatePriceAndQuantity { order_id: OrderId, new_price: u64, new_quantity: u64 },
    Cancel { order_id: OrderId },
    Replace { order_id: OrderId, price: u64, quantity: u64, side: Side },
}
pub struct OrderQueue {
    orders: DashMap,
    order_ids: SegQueue,
}
pub struct PriceLevel {
    price: u64,
    visible_quantity: AtomicU64,
    hidden_quantity: AtomicU64,
    order_count: AtomicUsize,
    orders: OrderQueue,
    stats: PriceLevelStatistics,
}
