use vstd::prelude::*;
use vstd::std_specs::cmp::*;
use std::sync::Arc;
use std::sync::atomic::Ordering;
verus!{
#[derive(Clone, Copy, PartialEq, Eq)]
pub struct OrderId(pub u128);
#[derive(Clone, Copy, PartialEq, Eq)]
pub enum Side { Buy, Sell }
impl Side { pub fn opposite(&self) -> (r: Side) ensures r != *self { match self { Side::Buy => Side::Sell, Side::Sell => Side::Buy } } }
#[derive(Clone, Copy, PartialEq, Eq)]
pub enum TimeInForce { Gtc, Ioc, Fok, Gtd(u64), Day }
#[derive(Clone, Copy, PartialEq, Eq)]
pub enum PegReferenceType { BestBid, BestAsk, MidPrice, LastTrade }
pub const DEFAULT_RESERVE_REPLENISH_AMOUNT: u64 = 80;
#[verifier::allow(undeclared_external_trait)]
pub assume_specification<T> [std::cmp::min] (a: T, b: T) -> (r: T)
    where T: std::cmp::Ord + std::marker::Destruct,
    ensures T::obeys_cmp_spec() ==> r == (if b.cmp_spec(&a) == core::cmp::Ordering::Less { b } else { a });

impl<T> OrderType<T> {
    pub open spec fn spec_id(&self) -> OrderId { match *self {
        Self::Standard { id, .. } => id, Self::IcebergOrder { id, .. } => id, Self::PostOnly { id, .. } => id,
        Self::TrailingStop { id, .. } => id, Self::PeggedOrder { id, .. } => id, Self::MarketToLimit { id, .. } => id,
        Self::ReserveOrder { id, .. } => id } }
    pub open spec fn spec_price(&self) -> u64 { match *self {
        Self::Standard { price, .. } => price, Self::IcebergOrder { price, .. } => price, Self::PostOnly { price, .. } => price,
        Self::TrailingStop { price, .. } => price, Self::PeggedOrder { price, .. } => price, Self::MarketToLimit { price, .. } => price,
        Self::ReserveOrder { price, .. } => price } }
    pub open spec fn spec_side(&self) -> Side { match *self {
        Self::Standard { side, .. } => side, Self::IcebergOrder { side, .. } => side, Self::PostOnly { side, .. } => side,
        Self::TrailingStop { side, .. } => side, Self::PeggedOrder { side, .. } => side, Self::MarketToLimit { side, .. } => side,
        Self::ReserveOrder { side, .. } => side } }
    pub open spec fn spec_vis(&self) -> u64 { match *self {
        Self::Standard { quantity, .. } => quantity, Self::IcebergOrder { visible_quantity, .. } => visible_quantity, Self::PostOnly { quantity, .. } => quantity,
        Self::TrailingStop { quantity, .. } => quantity, Self::PeggedOrder { quantity, .. } => quantity, Self::MarketToLimit { quantity, .. } => quantity,
        Self::ReserveOrder { visible_quantity, .. } => visible_quantity } }
    pub open spec fn spec_hid(&self) -> u64 { match *self {
        Self::IcebergOrder { hidden_quantity, .. } => hidden_quantity,
        Self::ReserveOrder { hidden_quantity, .. } => hidden_quantity,
        _ => 0 } }
}
