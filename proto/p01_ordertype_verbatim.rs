use vstd::prelude::*;
use vstd::std_specs::cmp::*;
verus!{
#[derive(Clone, Copy, PartialEq, Eq)]
pub struct OrderId(pub u128);
#[derive(Clone, Copy, PartialEq, Eq)]
pub enum Side { Buy, Sell }
#[derive(Clone, Copy, PartialEq, Eq)]
pub enum TimeInForce { Gtc, Ioc, Fok, Gtd(u64), Day }
#[derive(Clone, Copy, PartialEq, Eq)]
pub enum PegReferenceType { BestBid, BestAsk, MidPrice, LastTrade }
impl TimeInForce { pub fn is_immediate(&self) -> bool { matches!(self, Self::Ioc | Self::Fok) } }
#[verifier::allow(undeclared_external_trait)]
pub assume_specification<T> [std::cmp::min] (a: T, b: T) -> (r: T)
    where T: std::cmp::Ord + std::marker::Destruct,
    ensures T::obeys_cmp_spec() ==> r == (if b.cmp_spec(&a) == core::cmp::Ordering::Less { b } else { a });
pub const DEFAULT_RESERVE_REPLENISH_AMOUNT: u64 = 80;
#[derive(Clone, Copy, PartialEq, Eq)]
pub enum OrderType<T> {
    Standard {
        id: OrderId,
        price: u64,
        quantity: u64,
        side: Side,
        timestamp: u64,
        time_in_force: TimeInForce,
        extra_fields: T,
    },

    IcebergOrder {
        id: OrderId,
        price: u64,
        visible_quantity: u64,
        hidden_quantity: u64,
        side: Side,
        timestamp: u64,
        time_in_force: TimeInForce,
        extra_fields: T,
    },

    PostOnly {
        id: OrderId,
        price: u64,
        quantity: u64,
        side: Side,
        timestamp: u64,
        time_in_force: TimeInForce,
        extra_fields: T,
    },

    TrailingStop {
        id: OrderId,
        price: u64,
        quantity: u64,
        side: Side,
        timestamp: u64,
        time_in_force: TimeInForce,
        trail_amount: u64,
        last_reference_price: u64,
        extra_fields: T,
    },

    PeggedOrder {
        id: OrderId,
        price: u64,
        quantity: u64,
        side: Side,
        timestamp: u64,
        time_in_force: TimeInForce,
        reference_price_offset: i64,
        reference_price_type: PegReferenceType,
        extra_fields: T,
    },

    MarketToLimit {
        id: OrderId,
        price: u64,
        quantity: u64,
        side: Side,
        timestamp: u64,
        time_in_force: TimeInForce,
        extra_fields: T,
    },

    ReserveOrder {
        id: OrderId,
        price: u64,
        visible_quantity: u64,
        hidden_quantity: u64,
        side: Side,
        timestamp: u64,
        time_in_force: TimeInForce,
        replenish_threshold: u64,
        replenish_amount: Option<u64>,
        auto_replenish: bool,
        extra_fields: T,
    },
}
impl<T: Clone> OrderType<T> {
    pub fn id(&self) -> OrderId {
        match self {
            Self::Standard { id, .. } => *id,
            Self::IcebergOrder { id, .. } => *id,
            Self::PostOnly { id, .. } => *id,
            Self::TrailingStop { id, .. } => *id,
            Self::PeggedOrder { id, .. } => *id,
            Self::MarketToLimit { id, .. } => *id,
            Self::ReserveOrder { id, .. } => *id,
        }
    }

    pub fn price(&self) -> u64 {
        match self {
            Self::Standard { price, .. } => *price,
            Self::IcebergOrder { price, .. } => *price,
            Self::PostOnly { price, .. } => *price,
            Self::TrailingStop { price, .. } => *price,
            Self::PeggedOrder { price, .. } => *price,
            Self::MarketToLimit { price, .. } => *price,
            Self::ReserveOrder { price, .. } => *price,
        }
    }

    pub fn visible_quantity(&self) -> u64 {
        match self {
            Self::Standard { quantity, .. } => *quantity,
            Self::IcebergOrder {
                visible_quantity, ..
            } => *visible_quantity,
            Self::PostOnly { quantity, .. } => *quantity,
            Self::TrailingStop { quantity, .. } => *quantity,
            Self::PeggedOrder { quantity, .. } => *quantity,
            Self::MarketToLimit { quantity, .. } => *quantity,
            Self::ReserveOrder {
                visible_quantity, ..
            } => *visible_quantity,
        }
    }

    pub fn hidden_quantity(&self) -> u64 {
        match self {
            Self::IcebergOrder {
                hidden_quantity, ..
            } => *hidden_quantity,
            Self::ReserveOrder {
                hidden_quantity, ..
            } => *hidden_quantity,
            _ => 0,
        }
    }

    pub fn side(&self) -> Side {
        match self {
            Self::Standard { side, .. } => *side,
            Self::IcebergOrder { side, .. } => *side,
            Self::PostOnly { side, .. } => *side,
            Self::TrailingStop { side, .. } => *side,
            Self::PeggedOrder { side, .. } => *side,
            Self::MarketToLimit { side, .. } => *side,
            Self::ReserveOrder { side, .. } => *side,
        }
    }

    pub fn time_in_force(&self) -> TimeInForce {
        match self {
            Self::Standard { time_in_force, .. } => *time_in_force,
            Self::IcebergOrder { time_in_force, .. } => *time_in_force,
            Self::PostOnly { time_in_force, .. } => *time_in_force,
            Self::TrailingStop { time_in_force, .. } => *time_in_force,
            Self::PeggedOrder { time_in_force, .. } => *time_in_force,
            Self::MarketToLimit { time_in_force, .. } => *time_in_force,
            Self::ReserveOrder { time_in_force, .. } => *time_in_force,
        }
    }

    pub fn timestamp(&self) -> u64 {
        match self {
            Self::Standard { timestamp, .. } => *timestamp,
            Self::IcebergOrder { timestamp, .. } => *timestamp,
            Self::PostOnly { timestamp, .. } => *timestamp,
            Self::TrailingStop { timestamp, .. } => *timestamp,
            Self::PeggedOrder { timestamp, .. } => *timestamp,
            Self::MarketToLimit { timestamp, .. } => *timestamp,
            Self::ReserveOrder { timestamp, .. } => *timestamp,
        }
    }

    pub fn is_immediate(&self) -> bool {
        self.time_in_force().is_immediate()
    }

    pub fn is_fill_or_kill(&self) -> bool {
        matches!(self.time_in_force(), TimeInForce::Fok)
    }

    pub fn is_post_only(&self) -> bool {
        matches!(self, Self::PostOnly { .. })
    }

    pub fn with_reduced_quantity(&self, new_quantity: u64) -> Self {
        match self {
            Self::Standard {
                id,
                price,
                side,
                timestamp,
                time_in_force,
                extra_fields,
                ..
            } => Self::Standard {
                id: *id,
                price: *price,
                quantity: new_quantity,
                side: *side,
                timestamp: *timestamp,
                time_in_force: *time_in_force,
                extra_fields: extra_fields.clone(),
            },
            Self::IcebergOrder {
                id,
                price,
                side,
                timestamp,
                time_in_force,
                hidden_quantity,
                extra_fields,
                ..
            } => {
                // Update visible quantity but keep hidden the same
                Self::IcebergOrder {
                    id: *id,
                    price: *price,
                    visible_quantity: new_quantity,
                    hidden_quantity: *hidden_quantity,
                    side: *side,
                    timestamp: *timestamp,
                    time_in_force: *time_in_force,
                    extra_fields: extra_fields.clone(),
                }
            }
            Self::PostOnly {
                id,
                price,
                side,
                timestamp,
                time_in_force,
                extra_fields,
                ..
            } => Self::PostOnly {
                id: *id,
                price: *price,
                quantity: new_quantity,
                side: *side,
                timestamp: *timestamp,
                time_in_force: *time_in_force,
                extra_fields: extra_fields.clone(),
            },
            // For other order types, similar pattern...
            _ => self.clone(), // Default fallback, though this should be implemented for all types
        }
    }

    pub fn refresh_iceberg(&self, refresh_amount: u64) -> (Self, u64) {
        match self {
            Self::IcebergOrder {
                id,
                price,
                visible_quantity: _,
                hidden_quantity,
                side,
                timestamp,
                time_in_force,
                extra_fields,
            } => {
                let new_hidden = hidden_quantity.saturating_sub(refresh_amount);
                let used_hidden = hidden_quantity - new_hidden;

                (
                    Self::IcebergOrder {
                        id: *id,
                        price: *price,
                        visible_quantity: refresh_amount,
                        hidden_quantity: new_hidden,
                        side: *side,
                        timestamp: *timestamp,
                        time_in_force: *time_in_force,
                        extra_fields: extra_fields.clone(),
                    },
                    used_hidden,
                )
            }
            Self::ReserveOrder {
                id,
                price,
                visible_quantity: _,
                hidden_quantity,
                side,
                timestamp,
                time_in_force,
                replenish_threshold,
                replenish_amount,
                auto_replenish,
                extra_fields,
            } => {
                let new_hidden = hidden_quantity.saturating_sub(refresh_amount);
                let used_hidden = hidden_quantity - new_hidden;

                (
                    Self::ReserveOrder {
                        id: *id,
                        price: *price,
                        visible_quantity: refresh_amount,
                        hidden_quantity: new_hidden,
                        side: *side,
                        timestamp: *timestamp,
                        time_in_force: *time_in_force,
                        replenish_threshold: *replenish_threshold,
                        replenish_amount: *replenish_amount,
                        auto_replenish: *auto_replenish,
                        extra_fields: extra_fields.clone(),
                    },
                    used_hidden,
                )
            }
            _ => (self.clone(), 0), // Non-iceberg orders don't refresh
        }
    }
}
impl<T: Clone> OrderType<T> {
    pub fn match_against(&self, incoming_quantity: u64) -> (u64, Option<Self>, u64, u64) {
        match self {
            Self::Standard {
                id,
                price,
                quantity,
                side,
                timestamp,
                time_in_force,
                extra_fields,
            } => {
                if *quantity <= incoming_quantity {
                    // Full match
                    (
                        *quantity,                     // consumed = full order quantity
                        None,                          // no updated order (fully matched)
                        0,                             // no hidden quantity reduced
                        incoming_quantity - *quantity, // remaining = incoming - consumed
                    )
                } else {
                    // Partial match
                    (
                        incoming_quantity, // consumed = all incoming quantity
                        Some(Self::Standard {
                            id: *id,
                            price: *price,
                            quantity: *quantity - incoming_quantity, // reduce quantity
                            side: *side,
                            timestamp: *timestamp,
                            time_in_force: *time_in_force,
                            extra_fields: extra_fields.clone(),
                        }),
                        0, // not hidden quantity reduced
                        0, // not remaining quantity
                    )
                }
            }

            // En OrderType::match_against para IcebergOrder
            Self::IcebergOrder {
                id,
                price,
                visible_quantity,
                hidden_quantity,
                side,
                timestamp,
                time_in_force,
                extra_fields,
            } => {
                if *visible_quantity <= incoming_quantity {
                    // Fully match the visible portion
                    let consumed = *visible_quantity;
                    let remaining = incoming_quantity - consumed;

                    if *hidden_quantity > 0 {
                        // Refresh visible portion from hidden
                        let refresh_qty = std::cmp::min(*hidden_quantity, *visible_quantity);
                        let new_hidden = *hidden_quantity - refresh_qty;

                        // Create updated order with refreshed quantities
                        (
                            consumed,
                            Some(Self::IcebergOrder {
                                id: *id,
                                price: *price,
                                visible_quantity: refresh_qty,
                                hidden_quantity: new_hidden,
                                side: *side,
                                timestamp: *timestamp,
                                time_in_force: *time_in_force,
                                extra_fields: extra_fields.clone(),
                            }),
                            refresh_qty,
                            remaining,
                        )
                    } else {
                        // No hidden quantity left
                        (consumed, None, 0, remaining)
                    }
                } else {
                    // Partial match of visible quantity
                    let executed = incoming_quantity;

                    (
                        executed,
                        Some(Self::IcebergOrder {
                            id: *id,
                            price: *price,
                            visible_quantity: *visible_quantity - executed,
                            hidden_quantity: *hidden_quantity,
                            side: *side,
                            timestamp: *timestamp,
                            time_in_force: *time_in_force,
                            extra_fields: extra_fields.clone(),
                        }),
                        0,
                        0,
                    )
                }
            }

            Self::ReserveOrder {
                id,
                price,
                visible_quantity,
                hidden_quantity,
                side,
                timestamp,
                time_in_force,
                replenish_threshold,
                replenish_amount,
                auto_replenish,
                extra_fields,
            } => {
                // Ensure the threshold is never 0 if auto_replenish is true
                let safe_threshold = if *auto_replenish && *replenish_threshold == 0 {
                    1
                } else {
                    *replenish_threshold
                };

                let replenish_qty = replenish_amount
                    .unwrap_or(DEFAULT_RESERVE_REPLENISH_AMOUNT)
                    .min(*hidden_quantity);

                if *visible_quantity <= incoming_quantity {
                    // Full match of the visible part
                    let consumed = *visible_quantity;
                    let remaining = incoming_quantity - consumed;

                    // Verify if we need and can replenish
                    if *hidden_quantity > 0 && *auto_replenish {
                        // Restore from the hidden quantity
                        let new_hidden = *hidden_quantity - replenish_qty;

                        (
                            consumed,
                            Some(Self::ReserveOrder {
                                id: *id,
                                price: *price,
                                visible_quantity: replenish_qty,
                                hidden_quantity: new_hidden,
                                side: *side,
                                timestamp: *timestamp,
                                time_in_force: *time_in_force,
                                replenish_threshold: *replenish_threshold,
                                replenish_amount: *replenish_amount,
                                auto_replenish: *auto_replenish,
                                extra_fields: extra_fields.clone(),
                            }),
                            replenish_qty,
                            remaining,
                        )
                    } else {
                        // If there is no auto-replenishment or no hidden quantity, delete the order
                        (consumed, None, 0, remaining)
                    }
                } else {
                    // Partial match of the visible part
                    let consumed = incoming_quantity;
                    let new_visible = *visible_quantity - consumed;

                    // Check if we need to replenish (we fell below the threshold)
                    if new_visible < safe_threshold && *hidden_quantity > 0 && *auto_replenish {
                        // Restore from the hidden quantity
                        let new_hidden = *hidden_quantity - replenish_qty;

                        (
                            consumed,
                            Some(Self::ReserveOrder {
                                id: *id,
                                price: *price,
                                visible_quantity: new_visible + replenish_qty,
                                hidden_quantity: new_hidden,
                                side: *side,
                                timestamp: *timestamp,
                                time_in_force: *time_in_force,
                                replenish_threshold: *replenish_threshold,
                                replenish_amount: *replenish_amount,
                                auto_replenish: *auto_replenish,
                                extra_fields: extra_fields.clone(),
                            }),
                            replenish_qty,
                            0,
                        )
                    } else {
                        // We don't need to replenish or it is not automatic
                        (
                            consumed,
                            Some(Self::ReserveOrder {
                                id: *id,
                                price: *price,
                                visible_quantity: new_visible,
                                hidden_quantity: *hidden_quantity,
                                side: *side,
                                timestamp: *timestamp,
                                time_in_force: *time_in_force,
                                replenish_threshold: *replenish_threshold,
                                replenish_amount: *replenish_amount,
                                auto_replenish: *auto_replenish,
                                extra_fields: extra_fields.clone(),
                            }),
                            0,
                            0,
                        )
                    }
                }
            }

            // For all other order types, use standard matching logic
            _ => {
                let visible_qty = self.visible_quantity();

                if visible_qty <= incoming_quantity {
                    // Full match
                    (
                        visible_qty,                     // consumed full visible quantity
                        None,                            // fully matched
                        0,                               // no hidden reduced
                        incoming_quantity - visible_qty, // remaining quantity
                    )
                } else {
                    // Partial match
                    (
                        incoming_quantity, // consumed all incoming
                        Some(self.with_reduced_quantity(visible_qty - incoming_quantity)),
                        0, // not hidden reduced
                        0, // not remaining quantity
                    )
                }
            }
        }
    }
}
}
fn main(){}
