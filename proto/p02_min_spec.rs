use vstd::prelude::*;
use vstd::std_specs::cmp::*;
verus!{
#[verifier::allow(undeclared_external_trait)]
pub assume_specification<T> [std::cmp::min] (a: T, b: T) -> (r: T)
    where T: std::cmp::Ord + std::marker::Destruct,
    ensures T::obeys_cmp_spec() ==> r == (if b.cmp_spec(&a) == core::cmp::Ordering::Less { b } else { a });

fn g(a: u64, b: u64) -> (r: u64) ensures r == (if a <= b { a } else { b })
{
    std::cmp::min(a, b)
}
}
fn main(){}
