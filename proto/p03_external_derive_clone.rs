use vstd::prelude::*;
verus!{
#[verifier::external_derive(Clone)]
#[derive(Clone, Copy, PartialEq, Eq)]
pub enum E<T> { A { q: u64, x: T }, B { q: u64, h: u64, x: T } }

pub open spec fn same_but_extra<T: Clone>(a: E<T>, b: E<T>) -> bool {
    match (a, b) {
        (E::A{q: q1, x: x1}, E::A{q: q2, x: x2}) => q1 == q2 && cloned(x1, x2),
        (E::B{q: q1, h: h1, x: x1}, E::B{q: q2, h: h2, x: x2}) => q1 == q2 && h1 == h2 && cloned(x1, x2),
        _ => false,
    }
}

pub assume_specification<T: Clone> [<E<T> as Clone>::clone] (e: &E<T>) -> (r: E<T>)
    ensures same_but_extra(*e, r);

impl<T: Clone> E<T> {
    pub fn q(&self) -> (r: u64)
      ensures r == (match *self { E::A{q, ..} => q, E::B{q, ..} => q })
    { match self { Self::A{q, ..} => *q, Self::B{q, ..} => *q } }
    pub fn red(&self, n: u64) -> (r: Self)
      ensures self is B ==> same_but_extra(*self, r)
    {
        match self {
            Self::A{x, ..} => Self::A{q: n, x: x.clone()},
            _ => self.clone(),
        }
    }
}
}
fn main(){}
