use vstd::prelude::*;
verus!{
pub struct O { pub vis: u64, pub hid: u64 }

pub open spec fn sum_vis(m: Map<int, O>) -> nat
    decreases m.dom().len()
    when m.dom().finite()
{
    if m.dom().len() == 0 { 0 } else {
        let k = m.dom().choose();
        m[k].vis as nat + sum_vis(m.remove(k))
    }
}

pub proof fn lemma_sum_remove(m: Map<int, O>, k: int)
    requires m.dom().finite(), m.contains_key(k)
    ensures sum_vis(m) == m[k].vis as nat + sum_vis(m.remove(k))
    decreases m.dom().len()
{
    let c = m.dom().choose();
    if m.dom().len() == 0 {
        assert(false);
    } else if c == k {
    } else {
        // sum(m) = m[c] + sum(m - c);  k in m - c
        lemma_sum_remove(m.remove(c), k);
        // sum(m-c) = m[k] + sum(m-c-k)
        lemma_sum_remove(m.remove(k), c);
        // sum(m-k) = m[c] + sum(m-k-c)
        assert(m.remove(c).remove(k) =~= m.remove(k).remove(c));
    }
}

pub proof fn lemma_sum_insert(m: Map<int, O>, k: int, v: O)
    requires m.dom().finite(), !m.contains_key(k)
    ensures sum_vis(m.insert(k, v)) == v.vis as nat + sum_vis(m)
{
    lemma_sum_remove(m.insert(k, v), k);
    assert(m.insert(k, v).remove(k) =~= m);
}
}
fn main(){}
