use vstd::prelude::*;
verus!{
pub struct Ctr { pub ghost net: int }
impl Ctr {
    #[verifier::external_body]
    pub fn add(&mut self, x: u64) ensures final(self).net == old(self).net + x no_unwind { unimplemented!() }
    #[verifier::external_body]
    pub fn sub(&mut self, x: u64) ensures final(self).net == old(self).net - x no_unwind { unimplemented!() }
}
pub struct Q { pub ghost out: int }
impl Q {
    #[verifier::external_body]
    pub fn push(&mut self, x: u64) ensures final(self).out == old(self).out - x no_unwind { unimplemented!() }
    #[verifier::external_body]
    pub fn pop(&mut self) -> (r: u64) ensures final(self).out == old(self).out + r no_unwind { unimplemented!() }
}
pub struct L { c: Ctr, q: Q }
impl L {
    #[verifier::type_invariant]
    pub closed spec fn inv(&self) -> bool { self.c.net + self.q.out >= 0 }

    pub fn good_add(&mut self, x: u64) {
        proof { use_type_invariant(&*self); }
        self.c.add(x);
        self.q.push(x);
    }
    pub fn bad_add(&mut self, x: u64) {
        proof { use_type_invariant(&*self); }
        self.q.push(x);
        self.c.add(x);
    }
}
}
fn main(){}
