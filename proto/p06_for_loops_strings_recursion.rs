use vstd::prelude::*;
use std::sync::Arc;
verus!{
pub struct O { pub vis: u64 }
impl O { pub fn visible_quantity(&self) -> (r: u64) ensures r == self.vis { self.vis } }
pub open spec fn ssum(s: Seq<Arc<O>>) -> nat decreases s.len() { if s.len() == 0 { 0 } else { ssum(s.drop_last()) + s.last().vis as nat } }
pub struct Snap { pub visible_quantity: u64, pub order_count: usize, pub orders: Vec<Arc<O>> }
pub enum E { InvalidOperation { message: String }, Other }
impl Snap {
    pub fn refresh_aggregates(&mut self)
    {
        self.order_count = self.orders.len();

        let mut visible_total: u64 = 0;

        for order in &self.orders {
            visible_total = visible_total.saturating_add(order.visible_quantity());
        }

        self.visible_quantity = visible_total;
    }
}
pub fn from_vec(orders: Vec<Arc<O>>) -> u64 {
    let mut n = 0u64;
    for order in orders {
        n = n.saturating_add(order.vis);
    }
    n
}
pub fn upd(k: u8, order: Option<Arc<O>>) -> Result<Option<Arc<O>>, E>
    decreases k
{
    if k > 3 {
        if let Some(ref order_arc) = order {
            let v = order_arc.visible_quantity();
        }
        Ok(order)
    } else if k == 2 {
        Err(E::InvalidOperation { message: "Cannot update price to the same value".to_string() })
    } else if k == 1 {
        upd(0, order)
    } else { Ok(None) }
}
}
fn main(){}
