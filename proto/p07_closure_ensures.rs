use vstd::prelude::*;
use std::sync::Arc;
verus!{
pub struct O { pub vis: u64 }
#[verifier::external_body]
pub struct Ref<'a> { r: &'a Arc<O> }
impl<'a> Ref<'a> {
    pub uninterp spec fn view(&self) -> Arc<O>;
    #[verifier::external_body]
    pub fn value(&self) -> (r: &Arc<O>) ensures *r == self@ { unimplemented!() }
}
#[verifier::external_body]
pub struct DM { x: u8 }
impl DM {
    pub uninterp spec fn view(&self) -> Map<u64, Arc<O>>;
    #[verifier::external_body]
    pub fn get<'a>(&'a self, k: &u64) -> (r: Option<Ref<'a>>)
        ensures self@.contains_key(*k) ==> r.is_some() && r.unwrap()@ == self@[*k],
                !self@.contains_key(*k) ==> r.is_none()
    { unimplemented!() }
    #[verifier::external_body]
    pub fn remove(&mut self, k: &u64) -> (r: Option<(u64, Arc<O>)>)
        ensures old(self)@.contains_key(*k) ==> r == Some((*k, old(self)@[*k])) && final(self)@ == old(self)@.remove(*k),
            !old(self)@.contains_key(*k) ==> r.is_none() && final(self)@ == old(self)@,
    { unimplemented!() }
}
pub struct Q { orders: DM }
impl Q {
    pub closed spec fn m(&self) -> Map<u64, Arc<O>> { self.orders@ }
    pub fn find(&self, order_id: u64) -> (r: Option<Arc<O>>)
        ensures self.m().contains_key(order_id) ==> r == Some(self.m()[order_id]),
                !self.m().contains_key(order_id) ==> r.is_none()
    {
        self.orders.get(&order_id).map(|o: Ref| -> (r: Arc<O>) ensures r == o@ { o.value().clone() })
    }
    pub fn remove(&mut self, order_id: u64) -> (r: Option<Arc<O>>)
        ensures old(self).m().contains_key(order_id) ==> r == Some(old(self).m()[order_id]) && final(self).m() == old(self).m().remove(order_id),
                !old(self).m().contains_key(order_id) ==> r.is_none() && final(self).m() == old(self).m()
    {
        self.orders.remove(&order_id).map(|__p: (u64, Arc<O>)| -> (r: Arc<O>) ensures r == __p.1 { let (_, order) = __p; order })
    }
}
}
fn main(){}
