use vstd::prelude::*;
verus!{
pub open spec fn prio(t: Seq<int>, m: Set<int>) -> Seq<int>
    decreases t.len()
{
    if t.len() == 0 { Seq::empty() }
    else if m.contains(t[0]) { seq![t[0]].add(prio(t.skip(1), m.remove(t[0]))) }
    else { prio(t.skip(1), m) }
}

// every element of prio is live and has a ticket
pub proof fn lemma_prio_sub(t: Seq<int>, m: Set<int>, x: int)
    requires prio(t, m).contains(x)
    ensures m.contains(x), t.contains(x)
    decreases t.len()
{
    if t.len() == 0 { }
    else if m.contains(t[0]) {
        let rest = prio(t.skip(1), m.remove(t[0]));
        let p = prio(t, m);
        let i = choose|i: int| 0 <= i < p.len() && p[i] == x;
        if i == 0 { assert(t[0] == x); }
        else {
            assert(rest[i - 1] == x);
            lemma_prio_sub(t.skip(1), m.remove(t[0]), x);
            let j = choose|j: int| 0 <= j < t.skip(1).len() && t.skip(1)[j] == x;
            assert(t[j + 1] == x);
        }
    } else {
        lemma_prio_sub(t.skip(1), m, x);
        let j = choose|j: int| 0 <= j < t.skip(1).len() && t.skip(1)[j] == x;
        assert(t[j + 1] == x);
    }
}

// pushing a fresh id with no stale ticket appends it to prio
pub proof fn lemma_prio_push_fresh(t: Seq<int>, m: Set<int>, x: int)
    requires !m.contains(x), !t.contains(x)
    ensures prio(t.push(x), m.insert(x)) == prio(t, m).push(x)
    decreases t.len()
{
    if t.len() == 0 {
        assert(t.push(x).skip(1) =~= Seq::<int>::empty());
        assert(prio(t.push(x).skip(1), m.insert(x).remove(x)) =~= Seq::<int>::empty());
        assert(prio(t.push(x), m.insert(x)) =~= seq![x]);
        assert(prio(t, m).push(x) =~= seq![x]);
    } else {
        let h = t[0];
        assert(h != x) by { if h == x { assert(t.contains(x)); } }
        assert(t.push(x).skip(1) =~= t.skip(1).push(x));
        assert(!t.skip(1).contains(x)) by {
            if t.skip(1).contains(x) { let j = choose|j: int| 0 <= j < t.skip(1).len() && t.skip(1)[j] == x; assert(t[j+1] == x); }
        }
        if m.contains(h) {
            assert(m.insert(x).remove(h) =~= m.remove(h).insert(x));
            lemma_prio_push_fresh(t.skip(1), m.remove(h), x);
            assert(prio(t.push(x), m.insert(x)) =~= prio(t, m).push(x));
        } else {
            lemma_prio_push_fresh(t.skip(1), m, x);
        }
    }
}

// a stale ticket makes a re-added id jump the queue: concrete refutation of "joins at the back"
pub proof fn stale_ticket_counterexample()
    ensures prio(seq![1int, 2].push(1), set![2int].insert(1)) == seq![1int, 2]
{
    let t = seq![1int, 2, 1];
    assert(seq![1int, 2].push(1) =~= t);
    let m = set![2int].insert(1);
    assert(t.skip(1) =~= seq![2int, 1]);
    assert(m.remove(1) =~= set![2int]);
    assert(seq![2int, 1].skip(1) =~= seq![1int]);
    assert(set![2int].remove(2) =~= Set::<int>::empty());
    assert(seq![1int].skip(1) =~= Seq::<int>::empty());
    reveal_with_fuel(prio, 5);
    assert(prio(seq![1int], Set::<int>::empty()) =~= Seq::<int>::empty());
    assert(prio(seq![2int, 1], set![2int]) =~= seq![2int]);
    assert(prio(t, m) =~= seq![1int, 2]);
}
}
fn main(){}
