#[cfg(kani)]
mod proofs {
    use pricelevel::*;
    use std::str::FromStr;

    #[kani::proof]
    #[kani::unwind(40)]
    fn mr_from_str_no_panic() {
        let mut buf = *b"MatchResult:order_id=XX";
        buf[21] = kani::any();
        buf[22] = kani::any();
        if let Ok(s) = std::str::from_utf8(&buf) {
            let _ = MatchResult::from_str(s);
        }
    }

    #[kani::proof]
    #[kani::unwind(30)]
    fn tif_roundtrip() {
        let e: u64 = kani::any();
        let t = TimeInForce::Gtd(e);
        let s = t.to_string();
        let back = TimeInForce::from_str(&s);
        assert!(matches!(back, Ok(TimeInForce::Gtd(x)) if x == e));
    }
}
