#[cfg(kani)]
mod proofs {
    use pricelevel::*;
    use std::str::FromStr;

    #[kani::proof]
    #[kani::unwind(26)]
    fn mr_from_str_no_panic() {
        let mut buf = *b"MatchResult:order_id=XX";
        let a: u8 = kani::any();
        let b: u8 = kani::any();
        // either two ASCII bytes or one valid 2-byte UTF-8 scalar
        kani::assume((a < 0x80 && b < 0x80) || (a >= 0xC2 && a <= 0xDF && b >= 0x80 && b <= 0xBF));
        buf[21] = a;
        buf[22] = b;
        let s = unsafe { std::str::from_utf8_unchecked(&buf) };
        let _ = MatchResult::from_str(s);
    }
}
