#[cfg(kani)]
mod kani_proofs {
    use super::*;
    use crate::orders::{OrderId, Side, TimeInForce};

    fn any_side() -> Side { if kani::any() { Side::Buy } else { Side::Sell } }
    fn any_tif() -> TimeInForce {
        match kani::any::<u8>() % 5 { 0 => TimeInForce::Gtc, 1 => TimeInForce::Ioc, 2 => TimeInForce::Fok, 3 => TimeInForce::Gtd(kani::any()), _ => TimeInForce::Day }
    }

    #[kani::proof]
    fn iceberg_conserves() {
        let vis: u64 = kani::any();
        let hid: u64 = kani::any();
        kani::assume(vis.checked_add(hid).is_some());
        let o = OrderType::<()>::IcebergOrder { id: OrderId::from_u64(kani::any()), price: kani::any(), visible_quantity: vis, hidden_quantity: hid, side: any_side(), timestamp: kani::any(), time_in_force: any_tif(), extra_fields: () };
        let inc: u64 = kani::any();
        let (consumed, upd, hr, rem) = o.match_against(inc);
        assert!(consumed == vis.min(inc));
        assert!(consumed + rem == inc);
        if let Some(u) = upd {
            assert!(u.visible_quantity() + u.hidden_quantity() == vis + hid - consumed);
            assert!(u.id() == o.id());
        }
    }
    #[kani::proof]
    fn pegged_conserves() {
        let vis: u64 = kani::any();
        let o = OrderType::<()>::MarketToLimit { id: OrderId::from_u64(kani::any()), price: kani::any(), quantity: vis, side: any_side(), timestamp: kani::any(), time_in_force: any_tif(), extra_fields: () };
        let inc: u64 = kani::any();
        let (consumed, upd, hr, rem) = o.match_against(inc);
        assert!(consumed == vis.min(inc));
        if let Some(u) = upd {
            assert!(u.visible_quantity() + u.hidden_quantity() == vis - consumed);
        }
    }
}
