//! Shims for the purity (frame) check: the concurrency containers WITHOUT interior mutability.
//! Every operation that changes the container takes `&mut self`, every read takes `&self`.  The library's
//! own sources are compiled against these shims; the Rust borrow checker then reports every place where a
//! `&self` method reaches a mutating operation (E0596 "... is behind a `&` reference").  Such a report inside
//! one of the library's mutators is expected (that is the interior mutability the real containers hide);
//! inside any other `&self` method it is a violated frame condition: the read-only call is not read-only.
#![allow(dead_code, clippy::all)]
use std::collections::{HashMap, VecDeque};
use std::hash::Hash;

#[derive(Debug, Default)]
pub struct DashMap<K: Eq + Hash, V> { m: HashMap<K, V> }
pub struct Ref<'a, K, V> { k: &'a K, v: &'a V }
impl<'a, K, V> Ref<'a, K, V> {
    pub fn key(&self) -> &K { self.k }
    pub fn value(&self) -> &V { self.v }
    pub fn pair(&self) -> (&K, &V) { (self.k, self.v) }
}
impl<'a, K, V> std::ops::Deref for Ref<'a, K, V> { type Target = V; fn deref(&self) -> &V { self.v } }
impl<K: Eq + Hash + Clone, V> DashMap<K, V> {
    pub fn new() -> Self { Self { m: HashMap::new() } }
    pub fn with_capacity(n: usize) -> Self { Self { m: HashMap::with_capacity(n) } }
    // reads
    pub fn get(&self, k: &K) -> Option<Ref<'_, K, V>> { self.m.get_key_value(k).map(|(k, v)| Ref { k, v }) }
    pub fn iter(&self) -> impl Iterator<Item = Ref<'_, K, V>> { self.m.iter().map(|(k, v)| Ref { k, v }) }
    pub fn len(&self) -> usize { self.m.len() }
    pub fn is_empty(&self) -> bool { self.m.is_empty() }
    pub fn contains_key(&self, k: &K) -> bool { self.m.contains_key(k) }
    // writes
    pub fn insert(&mut self, k: K, v: V) -> Option<V> { self.m.insert(k, v) }
    pub fn remove(&mut self, k: &K) -> Option<(K, V)> { self.m.remove_entry(k) }
    pub fn remove_if(&mut self, k: &K, f: impl FnOnce(&K, &V) -> bool) -> Option<(K, V)> {
        if self.m.get_key_value(k).map_or(false, |(k, v)| f(k, v)) { self.m.remove_entry(k) } else { None }
    }
    pub fn clear(&mut self) { self.m.clear() }
    pub fn retain(&mut self, mut f: impl FnMut(&K, &mut V) -> bool) { self.m.retain(|k, v| f(k, v)) }
    pub fn get_mut(&mut self, k: &K) -> Option<&mut V> { self.m.get_mut(k) }
    pub fn alter(&mut self, k: &K, f: impl FnOnce(&K, V) -> V) { if let Some((k2, v)) = self.m.remove_entry(k) { let nv = f(&k2, v); self.m.insert(k2, nv); } }
    pub fn iter_mut(&mut self) -> impl Iterator<Item = (&K, &mut V)> { self.m.iter_mut() }
    pub fn entry(&mut self, k: K) -> std::collections::hash_map::Entry<'_, K, V> { self.m.entry(k) }
}

#[derive(Debug, Default)]
pub struct SegQueue<T> { q: VecDeque<T> }
impl<T> SegQueue<T> {
    pub fn new() -> Self { Self { q: VecDeque::new() } }
    pub fn len(&self) -> usize { self.q.len() }
    pub fn is_empty(&self) -> bool { self.q.is_empty() }
    pub fn push(&mut self, t: T) { self.q.push_back(t) }
    pub fn pop(&mut self) -> Option<T> { self.q.pop_front() }
}

pub mod atomic {
    pub use std::sync::atomic::Ordering;
    macro_rules! shim_atomic {
        ($name:ident, $t:ty) => {
            #[derive(Debug, Default)]
            pub struct $name { v: $t }
            impl $name {
                pub fn new(v: $t) -> Self { Self { v } }
                pub fn load(&self, _o: Ordering) -> $t { self.v }
                pub fn into_inner(self) -> $t { self.v }
                pub fn store(&mut self, v: $t, _o: Ordering) { self.v = v }
                pub fn swap(&mut self, v: $t, _o: Ordering) -> $t { std::mem::replace(&mut self.v, v) }
                pub fn fetch_add(&mut self, x: $t, _o: Ordering) -> $t { let p = self.v; self.v = p.wrapping_add(x); p }
                pub fn fetch_sub(&mut self, x: $t, _o: Ordering) -> $t { let p = self.v; self.v = p.wrapping_sub(x); p }
                pub fn fetch_max(&mut self, x: $t, _o: Ordering) -> $t { let p = self.v; self.v = p.max(x); p }
                pub fn fetch_min(&mut self, x: $t, _o: Ordering) -> $t { let p = self.v; self.v = p.min(x); p }
                pub fn fetch_and(&mut self, x: $t, _o: Ordering) -> $t { let p = self.v; self.v = p & x; p }
                pub fn fetch_or(&mut self, x: $t, _o: Ordering) -> $t { let p = self.v; self.v = p | x; p }
                pub fn compare_exchange(&mut self, c: $t, n: $t, _s: Ordering, _f: Ordering) -> Result<$t, $t> { if self.v == c { self.v = n; Ok(c) } else { Err(self.v) } }
                pub fn compare_exchange_weak(&mut self, c: $t, n: $t, s: Ordering, f: Ordering) -> Result<$t, $t> { self.compare_exchange(c, n, s, f) }
                pub fn fetch_update(&mut self, _s: Ordering, _f: Ordering, mut g: impl FnMut($t) -> Option<$t>) -> Result<$t, $t> { let p = self.v; match g(p) { Some(n) => { self.v = n; Ok(p) } None => Err(p) } }
            }
            impl serde::Serialize for $name { fn serialize<S: serde::Serializer>(&self, s: S) -> Result<S::Ok, S::Error> { self.v.serialize(s) } }
            impl<'de> serde::Deserialize<'de> for $name { fn deserialize<D: serde::Deserializer<'de>>(d: D) -> Result<Self, D::Error> { <$t>::deserialize(d).map(|v| Self { v }) } }
        };
    }
    shim_atomic!(AtomicU64, u64);
    shim_atomic!(AtomicUsize, usize);
    shim_atomic!(AtomicU32, u32);
    shim_atomic!(AtomicI64, i64);
}
