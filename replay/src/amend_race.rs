//! Forces the schedule  amend: find -> (other operation on the same order) -> remove ...  on the real
//! code through the cfg-guarded pause point `amend.after_find` (C03 / C12 witness).  The "other thread"
//! is run inside the pause callback: every operation of the level takes &self and is lock-free, so a
//! nested call at the pause point IS the interleaving in which the other thread runs to completion there.
use crate::{build_order, oid, JOrder, Report};
use pricelevel::{OrderUpdate, PriceLevel, UuidGenerator};
use std::sync::Arc;

#[cfg(pricelevel_verif)]
pub fn run(v: &serde_json::Value, rep: &mut Report) -> Result<(), String> {
    let price = v.get("price").and_then(|x| x.as_u64()).unwrap_or(100);
    let jo: JOrder = serde_json::from_value(v.get("order").cloned().ok_or("missing order")?).map_err(|e| e.to_string())?;
    let mut jo = jo; if jo.price == 0 { jo.price = price; }
    let o = build_order(&jo)?;
    let new_qty = v.get("new_qty").and_then(|x| x.as_u64()).ok_or("missing new_qty")?;
    let match_qty = v.get("match_qty").and_then(|x| x.as_u64()).ok_or("missing match_qty")?;
    run_one(price, o, new_qty, match_qty, rep)
}

/// thorough tier: the forced schedule over a grid of order kinds, amendment targets and racing match sizes
/// (bounded exploration of ONE schedule shape - never counted as proof)
#[cfg(pricelevel_verif)]
pub fn sweep(v: &serde_json::Value, rep: &mut Report) -> Result<(), String> {
    let prop = v.get("property").and_then(|x| x.as_str()).unwrap_or("C03").to_string();
    let kinds = vec![
        serde_json::json!({"type":"Standard","vis":6}), serde_json::json!({"type":"PostOnly","vis":6}),
        serde_json::json!({"type":"Iceberg","vis":5,"hid":10}), serde_json::json!({"type":"Iceberg","vis":3,"hid":2}), serde_json::json!({"type":"Iceberg","vis":0,"hid":4}),
        serde_json::json!({"type":"Reserve","vis":5,"hid":10,"threshold":0,"amount":5,"auto":true}), serde_json::json!({"type":"Reserve","vis":5,"hid":10,"threshold":3,"auto":true}),
        serde_json::json!({"type":"Reserve","vis":4,"hid":6,"threshold":0,"amount":0,"auto":true}), serde_json::json!({"type":"Reserve","vis":4,"hid":6,"threshold":2,"auto":false}),
        serde_json::json!({"type":"MarketToLimit","vis":6}), serde_json::json!({"type":"TrailingStop","vis":6}), serde_json::json!({"type":"PeggedOrder","vis":6}),
    ];
    let mut runs = 0u64;
    for k in &kinds {
        for new_qty in [0u64, 1, 3, 5, 6, 9, 20] {
            for match_qty in [0u64, 1, 3, 5, 6, 7, 11, 16, 100] {
                let mut j = k.clone();
                j["id"] = serde_json::json!(1); j["side"] = serde_json::json!("Sell"); j["ts"] = serde_json::json!(1); j["price"] = serde_json::json!(100);
                let jo: JOrder = serde_json::from_value(j.clone()).map_err(|e| e.to_string())?;
                let o = build_order(&jo)?;
                let mut r = Report::default();
                *crate::CURRENT.lock().unwrap() = Some(serde_json::json!({"kind":"amend_race","price":100,"order":j,"new_qty":new_qty,"match_qty":match_qty}));
                run_one(100, o, new_qty, match_qty, &mut r)?;
                runs += 1;
                let hits: Vec<&String> = r.lines.iter().filter(|l| l.contains(&format!("property={prop} "))).collect();
                if !hits.is_empty() {
                    for h in hits.iter().take(3) { rep.lines.push((*h).clone()); }
                    rep.lines.push(format!("REPLAY-FOUND {}", crate::CURRENT.lock().unwrap().clone().unwrap()));
                    return Ok(());
                }
                *crate::CURRENT.lock().unwrap() = None;
            }
        }
    }
    eprintln!("amend_race_sweep: {runs} forced schedules (12 order kinds x 7 amendment targets x 9 racing match sizes), nothing found for {prop}");
    Ok(())
}

#[cfg(pricelevel_verif)]
fn run_one(price: u64, o: pricelevel::OrderType<()>, new_qty: u64, match_qty: u64, rep: &mut Report) -> Result<(), String> {
    let level = Arc::new(PriceLevel::new(price));
    level.add_order(o);
    let supplied = o.visible_quantity() as u128 + o.hidden_quantity() as u128 + new_qty as u128;
    let l2 = level.clone();
    let ns = uuid::Uuid::parse_str("6ba7b810-9dad-11d1-80b4-00c04fd430c8").unwrap();
    let executed = Arc::new(std::sync::atomic::AtomicU64::new(0));
    let ex2 = executed.clone();
    // the order as the racing match left it (None: filled / no longer resting)
    let after_match: Arc<std::sync::Mutex<Option<pricelevel::OrderType<()>>>> = Arc::new(std::sync::Mutex::new(None));
    let am2 = after_match.clone();
    let the_id = o.id();
    pricelevel::verif_hook::set_hook(Some(Box::new(move |point: &str| {
        if point == "amend.after_find" {
            let g = UuidGenerator::new(ns);
            let r = l2.match_order(match_qty, oid(777), &g);
            ex2.store(r.transactions.as_vec().iter().map(|t| t.quantity).sum(), std::sync::atomic::Ordering::SeqCst);
            *am2.lock().unwrap() = l2.iter_orders().iter().find(|x| x.id() == the_id).map(|a| **a);
        }
    })));
    let amend_result = level.update_order(OrderUpdate::UpdateQuantity { order_id: o.id(), new_quantity: new_qty });
    pricelevel::verif_hook::set_hook(None);
    let ls = level.iter_orders();
    let sv: u128 = ls.iter().map(|o| o.visible_quantity() as u128).sum();
    let sh: u128 = ls.iter().map(|o| o.hidden_quantity() as u128).sum();
    let what = format!("schedule: amend(find) | match {match_qty} (executed {}) | amend(remove..push) to {new_qty}", executed.load(std::sync::atomic::Ordering::SeqCst));
    if level.visible_quantity() as u128 != sv || level.hidden_quantity() as u128 != sh || level.order_count() != ls.len() {
        rep.violation("C03", "conc.aggregates_equal_sums_at_quiescence", format!("{what}: visible_quantity()={} hidden_quantity()={} order_count()={} but resting orders sum to visible={sv} hidden={sh} count={}", level.visible_quantity(), level.hidden_quantity(), level.order_count(), ls.len()));
    }
    // per-order conservation (C03): the amendment applies to the order as the match left it - what rests afterwards
    // is with_reduced_quantity (the real function, under its own C07 contract) of THAT order, so that
    // supplied (as amended) = executed + resting; quantity that was already executed must not rest again
    {
        let resting = ls.iter().find(|x| x.id() == the_id).map(|a| **a);
        // an amendment that reports success applies to the order as the match left it; one that reports "nothing done"
        // (not found / error) must leave that order as it is - both keep supplied = executed + resting
        let took_effect = matches!(amend_result, Ok(Some(_)));
        let want = after_match.lock().unwrap().map(|m| if took_effect { m.with_reduced_quantity(new_qty) } else { m });
        let tot = |x: &Option<pricelevel::OrderType<()>>| x.map(|o| (o.visible_quantity(), o.hidden_quantity()));
        if tot(&resting) != tot(&want) {
            rep.violation("C03", "conc.per_order_supplied_equals_executed_plus_resting", format!("{what}: the match left the order as {:?}; amending THAT order gives (visible, hidden)={:?}, but the level now rests {:?}", *after_match.lock().unwrap(), tot(&want), tot(&resting)));
        }
    }
    if level.visible_quantity() as u128 > supplied || level.hidden_quantity() as u128 > supplied {
        rep.violation("C12", "conc.reader_never_sees_wrapped_aggregate", format!("{what}: a reader now obtains visible_quantity()={} although only {supplied} was ever supplied", level.visible_quantity()));
    }
    Ok(())
}

#[cfg(not(pricelevel_verif))]
pub fn sweep(_v: &serde_json::Value, _rep: &mut Report) -> Result<(), String> { Err("replay was built without --cfg pricelevel_verif".into()) }

#[cfg(not(pricelevel_verif))]
pub fn run(_v: &serde_json::Value, _rep: &mut Report) -> Result<(), String> {
    let _ = (build_order as fn(&JOrder) -> _, oid as fn(u64) -> _);
    let _: Option<(OrderUpdate, Arc<PriceLevel>, UuidGenerator)> = None;
    Err("replay was built without --cfg pricelevel_verif: the forced-schedule witness needs the pause hook".into())
}
