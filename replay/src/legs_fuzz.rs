//! Cross-check of the ASSUMED legs of C10 / C19 (Display / FromStr / Serialize / Deserialize / level data / package run
//! through `str` and serde, outside both verifiers) on pseudo-random level contents with boundary-biased field values.
//! Deterministic for a given seed.  A hit is a real execution of the real library; finding nothing proves nothing.
use crate::{JOrder, Report};
use pricelevel::{OrderQueue, PriceLevel, UuidGenerator};
use std::sync::Arc;

struct Rng(u64);
impl Rng {
    fn next(&mut self) -> u64 { let mut x = self.0; x ^= x << 13; x ^= x >> 7; x ^= x << 17; self.0 = x; x }
    fn below(&mut self, n: u64) -> u64 { self.next() % n }
    fn pick<'a, T>(&mut self, v: &'a [T]) -> &'a T { &v[self.below(v.len() as u64) as usize] }
}

const B32: &[u8] = b"0123456789ABCDEFGHJKMNPQRSTVWXYZ";

fn gen_order(r: &mut Rng, k: u64, price: u64, last_ts: u64) -> JOrder {
    let qty: Vec<u64> = vec![0, 1, 2, 9, 10, 99, 255, 256, 65535, 1 << 32, (1 << 53) + 1, 1 << 59];
    let tss: Vec<u64> = vec![0, 1, 7, (1 << 32) - 1, 1 << 32, 1616823000000, (1 << 53) + 1, u64::MAX - 1, u64::MAX, last_ts, last_ts];
    let i64s: Vec<i64> = vec![0, 1, -1, 50, -50, i64::MAX, i64::MIN, 1 << 40];
    let ty = *r.pick(&["Standard", "Iceberg", "PostOnly", "TrailingStop", "PeggedOrder", "MarketToLimit", "Reserve"]);
    let id_str = match r.below(3) {
        0 => { let mut s = String::new(); s.push(*r.pick(&['0', '1', '2', '3', '4', '5', '6', '7'])); for _ in 0..25 { s.push(B32[r.below(32) as usize] as char); } Some(s) }
        1 => Some(uuid::Uuid::from_u128(((r.next() as u128) << 64) | r.next() as u128).to_string()),
        _ => None,
    };
    let tif = *r.pick(&["Gtc", "Ioc", "Fok", "Day", "Gtd"]);
    JOrder {
        ty: ty.to_string(), id: 1000 + k, id_str, price: if r.below(4) == 0 { *r.pick(&[0u64, 1, 99, u32::MAX as u64, 1 << 40]) } else { price },
        vis: *r.pick(&qty), hid: if ty == "Iceberg" || ty == "Reserve" { *r.pick(&qty) } else { 0 },
        side: Some(r.pick(&["Buy", "Sell"]).to_string()), ts: *r.pick(&tss), tif: Some(tif.to_string()), gtd: *r.pick(&tss),
        threshold: *r.pick(&qty), amount: match r.below(3) { 0 => None, 1 => Some(0), _ => Some(*r.pick(&qty)) }, auto: r.below(2) == 0,
        trail_amount: *r.pick(&qty), last_reference_price: *r.pick(&qty), reference_price_offset: *r.pick(&i64s),
        reference_price_type: Some(r.pick(&["BestBid", "BestAsk", "MidPrice", "LastTrade"]).to_string()),
    }
}

pub fn run(v: &serde_json::Value, rep: &mut Report) -> Result<(), String> {
    let seed = v.get("seed").and_then(|x| x.as_u64()).unwrap_or(1);
    let rounds = v.get("rounds").and_then(|x| x.as_u64()).unwrap_or(400);
    let mut r = Rng(seed.wrapping_mul(0x9E3779B97F4A7C15) | 1);
    let ns = uuid::Uuid::parse_str("6ba7b810-9dad-11d1-80b4-00c04fd430c8").unwrap();
    for round in 0..rounds {
        let price = *r.pick(&[100u64, 1, 10_000, 0]);
        let n = r.below(7);
        let mut ops: Vec<serde_json::Value> = vec![];
        let mut jos: Vec<JOrder> = vec![];
        let mut last_ts = 5;
        for k in 0..n {
            let mut jo = gen_order(&mut r, k, price, last_ts);
            if jos.iter().any(|o| o.id_str.is_some() && o.id_str == jo.id_str) { jo.id_str = None; }
            last_ts = jo.ts;
            jos.push(jo);
        }
        // the level: the same orders through add_order, then a small match (partially filled / replenished states)
        let level = PriceLevel::new(price);
        let q = OrderQueue::new();
        for jo in &jos {
            let o = crate::build_order(jo)?;
            ops.push(serde_json::json!({"op": "add", "order": format!("{o:?}")}));
            level.add_order(o);
            q.push(Arc::new(o));
        }
        let mq = *r.pick(&[0u64, 1, 3, 10, 300]);
        if mq > 0 { let _ = level.match_order(mq, crate::oid(999), &UuidGenerator::new(ns)); ops.push(serde_json::json!({"op": "match", "qty": mq})); }
        let before = rep.lines.len();
        crate::level_history::legs_only(&level, rep, round as usize);
        crate::queue_history::legs_only(&q, rep, round as usize);
        if rep.lines.len() > before {
            rep.lines.push(format!("REPLAY-FOUND {}", serde_json::json!({"kind": "legs_fuzz", "seed": seed, "rounds": round + 1, "last_round_content": ops})));
            return Ok(());
        }
    }
    eprintln!("legs_fuzz: {rounds} pseudo-random level / queue contents (seed {seed}) through the text, JSON, level-data and package legs, nothing found");
    Ok(())
}
