//! Replays a single-threaded history on a real `PriceLevel` and evaluates the observable form of the
//! SEQ-world contracts after every operation (C01, C02, C04, C06, C07, C11, C15).
use crate::{build_order, oid, JOrder, Report};
use pricelevel::{OrderId, OrderType, OrderUpdate, PriceLevel, Side, UuidGenerator};
use std::collections::{HashMap, HashSet};
use std::sync::Arc;

type O = OrderType<()>;

fn listing(l: &PriceLevel) -> HashMap<OrderId, O> {
    l.iter_orders().iter().map(|a| (a.id(), **a)).collect()
}

struct Obs {
    price: u64,
    seq: HashMap<OrderId, u64>,        // arrival stamp (C04): smaller = earlier
    next_seq: u64,
    supplied: HashMap<OrderId, u128>,  // quantity brought (vis+hid, adjusted by amendments)
    filled: HashMap<OrderId, u128>,
    tx_ids: HashSet<uuid::Uuid>,
    adds: usize,
    removes: usize,
    qty_exec: u128,
    val_exec: u128,
    fate: HashMap<OrderId, &'static str>, // C08: resting / removed / filled - every order handed in has exactly one
}

/// only the round-trip legs (and the aggregate clauses) on a given level
pub fn legs_only(l: &PriceLevel, rep: &mut Report, step: usize) { c01(l, rep, step, "generated content", true); }

fn c01(l: &PriceLevel, rep: &mut Report, step: usize, what: &str, legs: bool) {
    let ls = l.iter_orders();
    let sv: u128 = ls.iter().map(|o| o.visible_quantity() as u128).sum();
    let sh: u128 = ls.iter().map(|o| o.hidden_quantity() as u128).sum();
    let mut ids = HashSet::new();
    for o in &ls { ids.insert(o.id()); }
    if l.visible_quantity() as u128 != sv { rep.violation("C01", "wf.visible_equals_sum", format!("step={step} after {what}: visible_quantity()={} but sum over resting orders={}", l.visible_quantity(), sv)); }
    if l.hidden_quantity() as u128 != sh { rep.violation("C01", "wf.hidden_equals_sum", format!("step={step} after {what}: hidden_quantity()={} but sum over resting orders={}", l.hidden_quantity(), sh)); }
    if l.order_count() != ids.len() { rep.violation("C01", "wf.count_equals_len", format!("step={step} after {what}: order_count()={} but {} resting orders", l.order_count(), ids.len())); }
    if !legs { return; }
    // C10, assumed legs (OrderQueue::to_vec, text and JSON forms), cross-checked on the real library
    if ids.len() != ls.len() || ls.windows(2).any(|w| w[0].timestamp() > w[1].timestamp()) {
        rep.violation("C10", "listing.each_once_sorted_by_timestamp", format!("step={step} after {what}: listing = {:?}", ls.iter().map(|o| (o.id(), o.timestamp())).collect::<Vec<_>>()));
    }
    let want = listing(l);
    match l.to_string().parse::<PriceLevel>() {
        Ok(t) => { if listing(&t) != want || t.price() != l.price() || t.visible_quantity() != l.visible_quantity() || t.hidden_quantity() != l.hidden_quantity() || t.order_count() != l.order_count() {
            rep.violation("C10", "roundtrip.text_form_same_content", format!("step={step} after {what}: text form {} parses to different content", l)); } }
        Err(e) => rep.violation("C10", "roundtrip.text_form_same_content", format!("step={step} after {what}: text form {} does not parse: {e}", l)),
    }
    match serde_json::to_string(l).map_err(|e| e.to_string()).and_then(|j| serde_json::from_str::<PriceLevel>(&j).map_err(|e| format!("{e} in {j}"))) {
        Ok(t) => { if listing(&t) != want || t.price() != l.price() || t.visible_quantity() != l.visible_quantity() || t.hidden_quantity() != l.hidden_quantity() || t.order_count() != l.order_count() {
            rep.violation("C10", "roundtrip.json_form_same_content", format!("step={step} after {what}: JSON form deserializes to different content")); } }
        Err(e) => rep.violation("C10", "roundtrip.json_form_same_content", format!("step={step} after {what}: JSON round trip failed: {e}")),
    }
    match PriceLevel::try_from(pricelevel::PriceLevelData::from(l)) {
        Ok(t) => { if listing(&t) != want || t.price() != l.price() || t.visible_quantity() != l.visible_quantity() || t.hidden_quantity() != l.hidden_quantity() || t.order_count() != l.order_count() {
            rep.violation("C10", "roundtrip.level_data_same_content", format!("step={step} after {what}: the level rebuilt from its own level data holds {} orders / aggregates ({}, {}, {}), the original {} / ({}, {}, {})", listing(&t).len(), t.visible_quantity(), t.hidden_quantity(), t.order_count(), want.len(), l.visible_quantity(), l.hidden_quantity(), l.order_count())); } }
        Err(e) => rep.violation("C10", "roundtrip.level_data_same_content", format!("step={step} after {what}: level data round trip failed: {e}")),
    }
    match l.snapshot_package().and_then(PriceLevel::from_snapshot_package) {
        Ok(t) => { if listing(&t) != want || t.price() != l.price() || t.visible_quantity() != l.visible_quantity() || t.hidden_quantity() != l.hidden_quantity() || t.order_count() != l.order_count() {
            rep.violation("C10", "roundtrip.package_same_content", format!("step={step} after {what}: package round trip yields different content")); } }
        Err(e) => rep.violation("C10", "roundtrip.package_always_succeeds", format!("step={step} after {what}: {e}")),
    }
}

pub fn run(v: &serde_json::Value, rep: &mut Report) -> Result<(), String> {
    let price = v.get("price").and_then(|x| x.as_u64()).unwrap_or(100);
    let ops = v.get("ops").and_then(|x| x.as_array()).ok_or("missing ops")?;
    let legs = v.get("legs").and_then(|x| x.as_bool()).unwrap_or(true);
    let ns = uuid::Uuid::parse_str("6ba7b810-9dad-11d1-80b4-00c04fd430c8").unwrap();
    let mut level = PriceLevel::new(price);
    let mut twin: Option<(PriceLevel, UuidGenerator)> = None; // restored copy run in lock-step (C11)
    // true when, at the moment of the snapshot, timestamps increase strictly along the queue (so that, by the proved
    // lemma, the listing order IS the queue order): then the proved half of C11
    // applies (lemma_c11_listing_is_queue_order + from_snapshot hands out in listing order) and any later divergence
    // of the restored copy is a new violation, not the known finding KF-C11
    let mut twin_comparable = false;
    let mut twin_spare = false;
    let generator = UuidGenerator::new(ns);
    // executable form of the PROVED queue contracts (pop = head of prio, push appends a ticket, remove leaves
    // tickets alone): the ticket list is modelled, the live orders are read back from the real level
    let mut tickets: std::collections::VecDeque<OrderId> = std::collections::VecDeque::new();
    let mut ob = Obs { price, seq: HashMap::new(), next_seq: 0, supplied: HashMap::new(), filled: HashMap::new(), tx_ids: HashSet::new(), adds: 0, removes: 0, qty_exec: 0, val_exec: 0, fate: HashMap::new() };
    for (step, op) in ops.iter().enumerate() {
        let name = op.get("op").and_then(|x| x.as_str()).ok_or("op without name")?;
        let g = |k: &str| op.get(k).and_then(|x| x.as_u64());
        let pre = listing(&level);
        match name {
            "add" => {
                let jo: JOrder = serde_json::from_value(op.get("order").cloned().ok_or("add without order")?).map_err(|e| e.to_string())?;
                let mut jo = jo; if jo.price == 0 { jo.price = price; }
                let o = build_order(&jo)?;
                if pre.contains_key(&o.id()) { return Err(format!("step {step}: precondition (ids unique among resting orders) violated by the replay file")); }
                level.add_order(o);
                tickets.push_back(o.id());
                if let Some((t, _)) = &twin { t.add_order(o); }
                ob.seq.insert(o.id(), ob.next_seq); ob.next_seq += 1;
                ob.supplied.insert(o.id(), o.visible_quantity() as u128 + o.hidden_quantity() as u128);
                ob.filled.insert(o.id(), 0);
                ob.fate.insert(o.id(), "resting");
                ob.adds += 1;
            }
            "match" => {
                let qty = g("qty").ok_or("match without qty")?;
                let taker = oid(g("taker").unwrap_or(999_000 + step as u64));
                let pre_vis_sum: u128 = pre.values().map(|o| o.visible_quantity() as u128).sum();
                // prediction from the ticket model (uses the real match_against for quantities)
                let mut expected: Vec<(OrderId, u64)> = vec![];
                {
                    let mut live = pre.clone();
                    let mut remaining = qty;
                    let mut aside: Vec<O> = vec![];
                    while remaining > 0 {
                        let Some(id) = tickets.pop_front() else { break };
                        let Some(o) = live.remove(&id) else { continue };
                        let (c, u, hr, rem) = o.match_against(remaining);
                        if c > 0 { expected.push((id, c)); }
                        remaining = rem;
                        if let Some(u) = u { if c == 0 && hr == 0 { aside.push(u); } else { live.insert(id, u); tickets.push_back(id); } }
                    }
                    for u in aside { tickets.push_back(u.id()); }
                }
                let r = level.match_order(qty, taker, &generator);
                let post = listing(&level);
                {
                    let got: Vec<(OrderId, u64)> = r.transactions.as_vec().iter().map(|t| (t.maker_order_id, t.quantity)).collect();
                    if got != expected { rep.violation("C04", "match_order.follows_ticket_order", format!("step={step} makers {got:?} but the queue discipline (pop = earliest live ticket, re-queue at the back) gives {expected:?}")); }
                }
                let txs = r.transactions.as_vec().clone();
                let exec: u128 = txs.iter().map(|t| t.quantity as u128).sum();
                if exec + r.remaining_quantity as u128 != qty as u128 { rep.violation("C02", "match_order.executed_plus_remaining", format!("step={step} requested={qty} executed={exec} remaining={}", r.remaining_quantity)); }
                if r.executed_quantity() as u128 != exec || r.executed_quantity() as u128 + r.remaining_quantity as u128 != qty as u128 { rep.violation("C02", "MatchResult.executed_quantity.sum_of_the_transactions", format!("step={step} executed_quantity()={} but the transactions sum to {exec} (requested {qty}, remaining {})", r.executed_quantity(), r.remaining_quantity)); }
                if txs.iter().any(|t| t.maker_side() == t.taker_side) { rep.violation("C02", "Transaction.maker_side.opposite_of_taker_side", format!("step={step}")); }
                if r.transactions.len() != txs.len() || r.transactions.is_empty() != txs.is_empty() { rep.violation("C02", "TransactionList.len.exact", format!("step={step} len()={} is_empty()={} for {} transactions", r.transactions.len(), r.transactions.is_empty(), txs.len())); }
                if r.is_complete != (r.remaining_quantity == 0) { rep.violation("C02", "match_order.complete_iff_nothing_remains", format!("step={step} is_complete={} remaining={}", r.is_complete, r.remaining_quantity)); }
                // C04 bookkeeping for this call
                let mut cur_vis: HashMap<OrderId, u64> = pre.iter().map(|(k, o)| (*k, o.visible_quantity())).collect();
                let mut traded: Vec<OrderId> = vec![];
                for t in &txs {
                    if t.quantity == 0 { rep.violation("C02", "match_order.tx_quantity_positive", format!("step={step} tx={t}")); }
                    if t.price != ob.price { rep.violation("C02", "match_order.tx_price_is_level_price", format!("step={step} tx={t}")); }
                    if t.taker_order_id != taker { rep.violation("C02", "match_order.tx_taker", format!("step={step} tx={t}")); }
                    match pre.get(&t.maker_order_id) {
                        None => rep.violation("C02", "match_order.tx_maker_was_resting", format!("step={step} tx={t}")),
                        Some(m) => {
                            let want = match m.side() { Side::Buy => Side::Sell, Side::Sell => Side::Buy };
                            if t.taker_side != want { rep.violation("C02", "match_order.tx_taker_side_opposite", format!("step={step} tx={t}")); }
                        }
                    }
                    if !ob.tx_ids.insert(t.transaction_id) { rep.violation("C02", "match_order.tx_id_fresh", format!("step={step} tx={t}")); }
                    // C04: nobody earlier with displayed quantity is waiting
                    let ms = ob.seq.get(&t.maker_order_id).copied().unwrap_or(u64::MAX);
                    for (j, v) in &cur_vis {
                        if *j != t.maker_order_id && *v > 0 && ob.seq.get(j).copied().unwrap_or(u64::MAX) < ms {
                            rep.violation("C04", "match_order.time_priority", format!("step={step} maker={} traded while earlier order {} still displays {}", t.maker_order_id, j, v));
                        }
                    }
                    let e = cur_vis.entry(t.maker_order_id).or_insert(0);
                    *e = e.saturating_sub(t.quantity);
                    if *e == 0 { ob.seq.insert(t.maker_order_id, ob.next_seq); ob.next_seq += 1; } // gone, or replenished => back of the queue
                    *ob.filled.entry(t.maker_order_id).or_insert(0) += t.quantity as u128;
                    if !traded.contains(&t.maker_order_id) { traded.push(t.maker_order_id); }
                    ob.qty_exec += t.quantity as u128;
                    ob.val_exec += t.quantity as u128 * ob.price as u128;
                }
                for id in &traded {
                    // threshold replenishment of a partially filled reserve also sends it to the back
                    if let (Some(a), Some(b)) = (pre.get(id), post.get(id)) { if b.hidden_quantity() < a.hidden_quantity() { ob.seq.insert(*id, ob.next_seq); ob.next_seq += 1; } }
                    let f = ob.filled[id]; let s = ob.supplied.get(id).copied().unwrap_or(0);
                    if f > s { rep.violation("C02", "match_order.never_overfilled", format!("step={step} order {id} traded {f} in its lifetime but brought only {s}")); }
                }
                c08_after_match(&pre, &post, &r, &mut ob, rep, step);
                let want_filled: HashSet<OrderId> = traded.iter().filter(|id| !post.contains_key(id)).copied().collect();
                let got_filled: HashSet<OrderId> = r.filled_order_ids.iter().copied().collect();
                if want_filled != got_filled || got_filled.len() != r.filled_order_ids.len() { rep.violation("C02", "match_order.filled_ids_exact", format!("step={step} filled_order_ids={:?} but makers that traded and left={:?}", r.filled_order_ids, want_filled)); }
                if r.remaining_quantity > 0 { for o in post.values() { if o.visible_quantity() > 0 { rep.violation("C06", "match_order.exhausts_display", format!("step={step} remaining={} but {} still displays {}", r.remaining_quantity, o.id(), o.visible_quantity())); } } }
                if exec < (qty as u128).min(pre_vis_sum) { rep.violation("C06", "match_order.executes_at_least_available", format!("step={step} executed={exec} requested={qty} displayed at start={pre_vis_sum}")); }
                if let Some((t, tg)) = &twin {
                    let r2 = t.match_order(qty, taker, tg);
                    let a: Vec<(OrderId, u64)> = txs.iter().map(|t| (t.maker_order_id, t.quantity)).collect();
                    let b: Vec<(OrderId, u64)> = r2.transactions.as_vec().iter().map(|t| (t.maker_order_id, t.quantity)).collect();
                    if a != b || r2.remaining_quantity != r.remaining_quantity {
                        rep.violation("C11", "restore.same_makers_same_sequence", format!("step={step} original makers={a:?} restored makers={b:?}"));
                        if twin_spare { rep.violation("C11", "restore.same_trading_despite_spare_tickets", format!("step={step} timestamps increased strictly along the queue, but the original carried spare tickets (left by a same-price amendment or a cancel) which the snapshot does not record: original makers={a:?} restored makers={b:?}")); }
                        if twin_comparable { rep.violation("C11", "restore.same_trading_when_listing_is_queue_order", format!("step={step} timestamps increased strictly along the queue and no spare ticket existed when the snapshot was taken (same abstract state), yet original makers={a:?} restored makers={b:?}")); }
                    }
                }
            }
            "cancel" | "update_price" | "update_qty" | "update_price_qty" | "replace" => {
                let id = oid(g("id").ok_or("update without id")?);
                let upd = match name {
                    "cancel" => OrderUpdate::Cancel { order_id: id },
                    "update_price" => OrderUpdate::UpdatePrice { order_id: id, new_price: g("price").ok_or("no price")? },
                    "update_qty" => OrderUpdate::UpdateQuantity { order_id: id, new_quantity: g("qty").ok_or("no qty")? },
                    "update_price_qty" => OrderUpdate::UpdatePriceAndQuantity { order_id: id, new_price: g("price").ok_or("no price")?, new_quantity: g("qty").ok_or("no qty")? },
                    _ => OrderUpdate::Replace { order_id: id, price: g("price").ok_or("no price")?, quantity: g("qty").ok_or("no qty")?, side: Side::Buy },
                };
                let new_price = match upd { OrderUpdate::UpdatePrice { new_price, .. } => Some(new_price), OrderUpdate::UpdatePriceAndQuantity { new_price, .. } => Some(new_price), OrderUpdate::Replace { price, .. } => Some(price), _ => None };
                let new_qty = match upd { OrderUpdate::UpdateQuantity { new_quantity, .. } => Some(new_quantity), OrderUpdate::UpdatePriceAndQuantity { new_quantity, .. } => Some(new_quantity), OrderUpdate::Replace { quantity, .. } => Some(quantity), _ => None };
                let res = level.update_order(upd);
                if let Some((t, _)) = &twin { let _ = t.update_order(upd); }
                let post = listing(&level);
                let removes = name == "cancel" || new_price.map_or(false, |p| p != ob.price);
                let same_price_move = name == "update_price" && new_price == Some(ob.price);
                let res_o: Result<Option<O>, ()> = res.map(|x| x.map(|a: Arc<O>| *a)).map_err(|_| ());
                if same_price_move {
                    if res_o.is_ok() { rep.violation("C07", "update_order.same_price_rejected", format!("step={step}")); }
                    if post != pre { rep.violation("C07", "update_order.same_price_no_effect", format!("step={step}")); }
                } else if !pre.contains_key(&id) {
                    if res_o != Ok(None) { rep.violation("C07", "update_order.absent_reports_not_found", format!("step={step} got {res_o:?}")); }
                    if post != pre { rep.violation("C07", "update_order.absent_changes_nothing", format!("step={step}")); }
                } else if removes {
                    if res_o != Ok(Some(pre[&id])) { rep.violation("C07", "update_order.returns_removed_order", format!("step={step} got {res_o:?} want {:?}", pre[&id])); }
                    let mut want = pre.clone(); want.remove(&id);
                    if post != want { rep.violation("C07", "update_order.removes_only_that_order", format!("step={step}")); }
                    if res_o.as_ref().map_or(false, |x| x.is_some()) {
                        if ob.fate.get(&id).copied() != Some("resting") { rep.violation("C08", "handout.never_twice", format!("step={step} order {id} handed to a remover but it had already been handed out ({:?})", ob.fate.get(&id))); }
                        ob.fate.insert(id, "removed");
                    }
                    ob.removes += 1; ob.seq.remove(&id);
                } else {
                    // same-price quantity amendment
                    let q = new_qty.unwrap();
                    let old = pre[&id];
                    match res_o {
                        Ok(Some(n)) => {
                            if post.get(&id) != Some(&n) { rep.violation("C07", "update_order.amend_returns_resting_order", format!("step={step} returned {n:?} resting {:?}", post.get(&id))); }
                            if !crate::oracle_c05::same_identity(&old, &n) { rep.violation("C07", "update_order.amend_identity_kept", format!("step={step}")); }
                            let sets = matches!(old, OrderType::Standard { .. } | OrderType::PostOnly { .. } | OrderType::IcebergOrder { .. });
                            if sets && n.visible_quantity() != q { rep.violation("C07", "update_order.amend_sets_display", format!("step={step} want {q} got {}", n.visible_quantity())); }
                            let mut want = pre.clone(); want.insert(id, n);
                            if post != want { rep.violation("C07", "update_order.amend_leaves_others", format!("step={step}")); }
                            let f = ob.filled.get(&id).copied().unwrap_or(0);
                            ob.supplied.insert(id, f + n.visible_quantity() as u128 + n.hidden_quantity() as u128);
                            tickets.push_back(id);
                        }
                        other => rep.violation("C07", "update_order.amend_returns_resting_order", format!("step={step} got {other:?}")),
                    }
                }
            }
            "restore" | "fork_restore" => {
                let snap = level.snapshot();
                let restored = PriceLevel::from_snapshot(snap).map_err(|e| format!("restore failed: {e}"))?;
                let a = listing(&level); let b = listing(&restored);
                if a != b || restored.price() != level.price() || restored.visible_quantity() != level.visible_quantity() || restored.hidden_quantity() != level.hidden_quantity() || restored.order_count() != level.order_count() {
                    rep.violation("C10", "restore.same_content", format!("step={step}: restored level lists {} orders / aggregates ({}, {}, {}), original {} / ({}, {}, {})", b.len(), restored.visible_quantity(), restored.hidden_quantity(), restored.order_count(), a.len(), level.visible_quantity(), level.hidden_quantity(), level.order_count()));
                    rep.violation("C11", "restore.same_content", format!("step={step}: the restored level does not hold the same orders as the original"));
                }
                // C10 "figures carried by the input are never believed": the same snapshot / level data with every aggregate
                // field falsified must rebuild a level whose aggregates are derived from the orders
                {
                    let sums = |l: &PriceLevel| { let ls = l.iter_orders(); (ls.iter().map(|o| o.visible_quantity() as u128).sum::<u128>(), ls.iter().map(|o| o.hidden_quantity() as u128).sum::<u128>(), ls.len()) };
                    let mut bad = level.snapshot();
                    bad.visible_quantity = bad.visible_quantity.wrapping_add(7); bad.hidden_quantity = bad.hidden_quantity.wrapping_add(3); bad.order_count = bad.order_count.wrapping_add(1);
                    {   // the by-reference constructor (From<&PriceLevelSnapshot>) is a separate function with its own refresh: same demand
                        let t = PriceLevel::from(&bad); let (sv, sh, n) = sums(&t);
                        if t.visible_quantity() as u128 != sv || t.hidden_quantity() as u128 != sh || t.order_count() != n || listing(&t) != a {
                            rep.violation("C10", "restore.input_aggregates_never_believed", format!("step={step}: PriceLevel::from(&snapshot) of a snapshot with falsified aggregates yields aggregates ({}, {}, {}) for orders summing to ({sv}, {sh}, {n})", t.visible_quantity(), t.hidden_quantity(), t.order_count())); }
                    }
                    match PriceLevel::from_snapshot(bad) {
                        Ok(t) => { let (sv, sh, n) = sums(&t); if t.visible_quantity() as u128 != sv || t.hidden_quantity() as u128 != sh || t.order_count() != n || listing(&t) != a {
                            rep.violation("C10", "restore.input_aggregates_never_believed", format!("step={step}: from_snapshot of a snapshot with falsified aggregates yields aggregates ({}, {}, {}) for orders summing to ({sv}, {sh}, {n})", t.visible_quantity(), t.hidden_quantity(), t.order_count())); } }
                        Err(_) => {} // rejecting the input is not believing it
                    }
                    // an order-less snapshot whose recorded aggregates say otherwise rebuilds an EMPTY level
                    let mut hollow = level.snapshot(); hollow.orders.clear();
                    { let t = PriceLevel::from(&hollow); if t.visible_quantity() != 0 || t.hidden_quantity() != 0 || t.order_count() != 0 || !t.iter_orders().is_empty() {
                        rep.violation("C10", "restore.input_aggregates_never_believed", format!("step={step}: PriceLevel::from(&snapshot) of an order-less snapshot with recorded aggregates yields aggregates ({}, {}, {}) with no resting order", t.visible_quantity(), t.hidden_quantity(), t.order_count())); } }
                    if let Ok(t) = PriceLevel::from_snapshot(hollow) { if t.visible_quantity() != 0 || t.hidden_quantity() != 0 || t.order_count() != 0 || !t.iter_orders().is_empty() {
                        rep.violation("C10", "restore.input_aggregates_never_believed", format!("step={step}: from_snapshot of an order-less snapshot with recorded aggregates yields aggregates ({}, {}, {}) with no resting order", t.visible_quantity(), t.hidden_quantity(), t.order_count()));
                        rep.violation("C01", "wf.visible_equals_sum", format!("step={step}: a level rebuilt from an order-less snapshot reports visible={} hidden={} count={} and lists no order", t.visible_quantity(), t.hidden_quantity(), t.order_count())); } }
                    let mut data = pricelevel::PriceLevelData::from(&level);
                    data.visible_quantity = data.visible_quantity.wrapping_add(5); data.hidden_quantity = data.hidden_quantity.wrapping_add(9); data.order_count = data.order_count.wrapping_add(2);
                    match PriceLevel::try_from(data) {
                        Ok(t) => { let (sv, sh, n) = sums(&t); if t.visible_quantity() as u128 != sv || t.hidden_quantity() as u128 != sh || t.order_count() != n || listing(&t) != a {
                            rep.violation("C10", "restore.input_aggregates_never_believed", format!("step={step}: a level built from level data with falsified aggregates reports ({}, {}, {}) for orders summing to ({sv}, {sh}, {n})", t.visible_quantity(), t.hidden_quantity(), t.order_count())); } }
                        Err(_) => {}
                    }
                }
                {
                    let mut seen: Vec<OrderId> = vec![];
                    for t in tickets.iter() { if a.contains_key(t) && !seen.contains(t) { seen.push(*t); } }
                    // hypothesis of the proved lemma (lemma_c11_listing_is_queue_order): the live orders, in queue order,
                    // carry strictly increasing timestamps.  It is evaluated on the queue model, NOT on the real listing,
                    // so that a listing that stops being sorted by timestamp cannot switch the clause off
                    let ts: Vec<u64> = seen.iter().map(|i| a[i].timestamp()).collect();
                    let ts_increasing = ts.windows(2).all(|w| w[0] < w[1]);
                    // ... and of its corollary (lemma_c11_same_abstract_state): no spare ticket - the ticket list is exactly the
                    // queue order.  A same-price amendment or a cancel leaves tickets behind which a snapshot does not carry:
                    // a divergence in that situation is the known finding KF-C11-b, not a new violation
                    let no_spare = tickets.iter().copied().collect::<Vec<_>>() == seen;
                    twin_comparable = ts_increasing && no_spare;
                    twin_spare = ts_increasing && !no_spare;
                }
                if name == "restore" { tickets = level.iter_orders().iter().map(|o| o.id()).collect(); level = restored; } else { twin = Some((restored, UuidGenerator::new(ns))); }
            }
            "read" => {
                let _ = (level.price(), level.visible_quantity(), level.hidden_quantity(), level.total_quantity(), level.order_count());
                let _ = level.iter_orders(); let _ = level.snapshot(); let _ = level.snapshot_package(); let _ = level.snapshot_to_json();
                let _ = format!("{level}"); let _ = serde_json::to_string(&level); let _ = level.stats().orders_added();
                if listing(&level) != pre { rep.violation("C07", "purity.reads_change_nothing", format!("step={step}")); }
            }
            other => return Err(format!("unknown op {other}")),
        }
        c01(&level, rep, step, name, legs);
        c08_handout(&level, &ob, rep, step, name);
        let st = level.stats();
        if twin.is_none() && !ops.iter().take(step + 1).any(|o| o.get("op").and_then(|x| x.as_str()) == Some("restore")) {
            if st.orders_added() != ob.adds { rep.violation("C15", "stats.orders_added", format!("step={step} stats={} events={}", st.orders_added(), ob.adds)); }
            if st.orders_removed() != ob.removes { rep.violation("C15", "stats.orders_removed", format!("step={step} stats={} events={}", st.orders_removed(), ob.removes)); }
            if st.quantity_executed() as u128 != ob.qty_exec { rep.violation("C15", "stats.quantity_executed", format!("step={step} stats={} events={}", st.quantity_executed(), ob.qty_exec)); }
            if st.value_executed() as u128 != ob.val_exec { rep.violation("C15", "stats.value_executed", format!("step={step} stats={} events={}", st.value_executed(), ob.val_exec)); }
        }
    }
    // C08, sequential form of the drain statement: a sufficiently large match consumes everything displayed and
    // replenishable; afterwards nothing with displayed quantity is left and the aggregates describe what remains
    if v.get("drain").and_then(|x| x.as_bool()).unwrap_or(true) {
        let step = ops.len();
        let pre = listing(&level);
        let r = level.match_order(u64::MAX, oid(998_999), &generator);
        c08_after_match(&pre, &listing(&level), &r, &mut ob, rep, step);
        for o in level.iter_orders() {
            if o.visible_quantity() > 0 { rep.violation("C08", "drain.nothing_displayed_left", format!("after a draining match order {} still displays {}", o.id(), o.visible_quantity())); }
        }
        let ls = level.iter_orders();
        let sv: u128 = ls.iter().map(|o| o.visible_quantity() as u128).sum();
        let sh: u128 = ls.iter().map(|o| o.hidden_quantity() as u128).sum();
        if level.visible_quantity() as u128 != sv || level.hidden_quantity() as u128 != sh || level.order_count() != ls.len() {
            rep.violation("C08", "drain.aggregates_describe_remainder", format!("after a draining match: aggregates ({}, {}, {}) but {} orders remain with sums ({sv}, {sh})", level.visible_quantity(), level.hidden_quantity(), level.order_count(), ls.len()));
        }
        c08_handout(&level, &ob, rep, step, "drain");
    }
    Ok(())
}

/// C08 "handed out exactly once, never to none": every order handed to the level is either still resting (listed)
/// or was handed to exactly one remover or reported filled by exactly one match
fn c08_handout(l: &PriceLevel, ob: &Obs, rep: &mut Report, step: usize, what: &str) {
    let listed: HashSet<OrderId> = l.iter_orders().iter().map(|o| o.id()).collect();
    let mut ids: Vec<&OrderId> = ob.fate.keys().collect();
    ids.sort_by_key(|i| i.to_string());
    for id in ids {
        let f = ob.fate[id];
        if f == "resting" && !listed.contains(id) { rep.violation("C08", "handout.never_to_none", format!("step={step} after {what}: order {id} was handed to the level, nobody received it back, and it is no longer resting")); }
        if f != "resting" && listed.contains(id) { rep.violation("C08", "handout.never_twice", format!("step={step} after {what}: order {id} was handed out ({f}) and is still resting")); }
    }
}

/// the orders a match took for good: reported filled, or empty ones (nothing displayed, nothing to replenish from,
/// decided by the real match_against) which the matcher discards without a transaction
fn c08_after_match(pre: &HashMap<OrderId, O>, post: &HashMap<OrderId, O>, r: &pricelevel::MatchResult, ob: &mut Obs, rep: &mut Report, step: usize) {
    for id in &r.filled_order_ids {
        if ob.fate.get(id).copied() != Some("resting") { rep.violation("C08", "handout.never_twice", format!("step={step} order {id} reported filled but it had already been handed out ({:?})", ob.fate.get(id))); }
        ob.fate.insert(*id, "filled");
    }
    for (id, o) in pre {
        if post.contains_key(id) || r.filled_order_ids.contains(id) { continue; }
        let (c, u, _, _) = o.match_against(1);
        if c == 0 && u.is_none() { ob.fate.insert(*id, "discarded-empty"); }
    }
}
