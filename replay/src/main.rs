//! replay: executes a replay file (JSON) on the REAL pricelevel library (path dependency on /repo)
//! and evaluates the executable form of the named obligations.  It is used to confirm a verifier
//! counterexample or a known-finding witness on the real code; it never passes a property.
//!
//! exit 0: no clause violated      (prints REPLAY-OK)
//! exit 1: some clause violated    (prints one REPLAY-VIOLATION line per clause)
//! exit 2: malformed replay file
#![allow(clippy::too_many_arguments)]
mod oracle_c05;
#[allow(dead_code)]
mod oracle_misc;
mod level_history;
mod queue_history;
mod amend_race;
mod search;
mod package_faults;
mod legs_fuzz;
mod match_result_contract;
mod uuid_contract;

use pricelevel::{OrderId, OrderType, PegReferenceType, Side, TimeInForce};
use serde::Deserialize;
use std::sync::mpsc;
use std::time::Duration;

#[derive(Deserialize, Clone, Debug)]
pub struct JOrder {
    #[serde(rename = "type")]
    pub ty: String,
    #[serde(default)]
    pub id: u64,
    /// textual id (UUID or ULID form) - takes precedence over `id`
    #[serde(default)]
    pub id_str: Option<String>,
    #[serde(default)]
    pub price: u64,
    #[serde(default)]
    pub vis: u64,
    #[serde(default)]
    pub hid: u64,
    #[serde(default)]
    pub side: Option<String>,
    #[serde(default)]
    pub ts: u64,
    #[serde(default)]
    pub tif: Option<String>,
    #[serde(default)]
    pub gtd: u64,
    #[serde(default)]
    pub threshold: u64,
    #[serde(default)]
    pub amount: Option<u64>,
    #[serde(default)]
    pub auto: bool,
    #[serde(default)]
    pub trail_amount: u64,
    #[serde(default)]
    pub last_reference_price: u64,
    #[serde(default)]
    pub reference_price_offset: i64,
    #[serde(default)]
    pub reference_price_type: Option<String>,
}

pub fn oid(n: u64) -> OrderId { OrderId::from_u64(n) }

pub fn build_order(j: &JOrder) -> Result<OrderType<()>, String> {
    let id = match &j.id_str { Some(t) => t.parse::<OrderId>().map_err(|e| format!("bad id_str {t}: {e}"))?, None => oid(j.id) };
    let side = match j.side.as_deref().unwrap_or("Buy") { "Buy" | "BUY" | "buy" => Side::Buy, "Sell" | "SELL" | "sell" => Side::Sell, s => return Err(format!("bad side {s}")) };
    let tif = match j.tif.as_deref().unwrap_or("Gtc") {
        "Gtc" => TimeInForce::Gtc, "Ioc" => TimeInForce::Ioc, "Fok" => TimeInForce::Fok, "Day" => TimeInForce::Day,
        "Gtd" => TimeInForce::Gtd(j.gtd), s => return Err(format!("bad tif {s}")) };
    let peg = match j.reference_price_type.as_deref().unwrap_or("BestBid") {
        "BestBid" => PegReferenceType::BestBid, "BestAsk" => PegReferenceType::BestAsk,
        "MidPrice" => PegReferenceType::MidPrice, "LastTrade" => PegReferenceType::LastTrade, s => return Err(format!("bad peg {s}")) };
    Ok(match j.ty.as_str() {
        "Standard" => OrderType::Standard { id, price: j.price, quantity: j.vis, side, timestamp: j.ts, time_in_force: tif, extra_fields: () },
        "IcebergOrder" | "Iceberg" => OrderType::IcebergOrder { id, price: j.price, visible_quantity: j.vis, hidden_quantity: j.hid, side, timestamp: j.ts, time_in_force: tif, extra_fields: () },
        "PostOnly" => OrderType::PostOnly { id, price: j.price, quantity: j.vis, side, timestamp: j.ts, time_in_force: tif, extra_fields: () },
        "TrailingStop" => OrderType::TrailingStop { id, price: j.price, quantity: j.vis, side, timestamp: j.ts, time_in_force: tif, trail_amount: j.trail_amount, last_reference_price: j.last_reference_price, extra_fields: () },
        "PeggedOrder" | "Pegged" => OrderType::PeggedOrder { id, price: j.price, quantity: j.vis, side, timestamp: j.ts, time_in_force: tif, reference_price_offset: j.reference_price_offset, reference_price_type: peg, extra_fields: () },
        "MarketToLimit" => OrderType::MarketToLimit { id, price: j.price, quantity: j.vis, side, timestamp: j.ts, time_in_force: tif, extra_fields: () },
        "ReserveOrder" | "Reserve" => OrderType::ReserveOrder { id, price: j.price, visible_quantity: j.vis, hidden_quantity: j.hid, side, timestamp: j.ts, time_in_force: tif, replenish_threshold: j.threshold, replenish_amount: j.amount, auto_replenish: j.auto, extra_fields: () },
        s => return Err(format!("bad order type {s}")),
    })
}

/// the history a search is executing right now (so that a hang can be attributed to it)
pub static CURRENT: std::sync::LazyLock<std::sync::Arc<std::sync::Mutex<Option<serde_json::Value>>>> = std::sync::LazyLock::new(|| std::sync::Arc::new(std::sync::Mutex::new(None)));

#[derive(Default)]
pub struct Report { pub lines: Vec<String> }
impl Report {
    pub fn violation(&mut self, prop: &str, clause: &str, detail: String) {
        self.lines.push(format!("REPLAY-VIOLATION property={prop} clause={clause} {detail}"));
    }
}

fn run(v: serde_json::Value) -> Result<Report, String> {
    let kind = v.get("kind").and_then(|k| k.as_str()).ok_or("missing kind")?.to_string();
    let mut rep = Report::default();
    match kind.as_str() {
        "match_against" => {
            let o: JOrder = serde_json::from_value(v.get("order").cloned().ok_or("missing order")?).map_err(|e| e.to_string())?;
            let incoming = v.get("incoming").and_then(|x| x.as_u64()).ok_or("missing incoming")?;
            let o = build_order(&o)?;
            if o.visible_quantity().checked_add(o.hidden_quantity()).is_none() { return Err("precondition vis+hid<=u64::MAX violated by replay input".into()); }
            let r = o.match_against(incoming);
            let c = oracle_c05::c05_eval(&o, incoming, &r);
            macro_rules! chk { ($b:expr, $l:literal) => { if !$b { rep.violation("C05", $l, format!("order={:?} incoming={} result={:?}", o, incoming, r)); } } }
            c05_each!(c, chk);
        }
        "level_history" => level_history::run(&v, &mut rep)?,
        "queue_history" => queue_history::run(&v, &mut rep)?,
        "amend_race" => amend_race::run(&v, &mut rep)?,
        "amend_race_sweep" => amend_race::sweep(&v, &mut rep)?,
        "search" => search::run(&v, &mut rep)?,
        "package_faults" => package_faults::run(&v, &mut rep)?,
        "uuid_contract" => uuid_contract::run(&v, &mut rep)?,
        "legs_fuzz" => legs_fuzz::run(&v, &mut rep)?,
        "match_result_contract" => match_result_contract::run(&v, &mut rep)?,
        k => return Err(format!("unknown kind {k}")),
    }
    Ok(rep)
}

fn main() {
    let args: Vec<String> = std::env::args().collect();
    if args.len() < 2 { eprintln!("usage: replay <file.json> [timeout_s]"); std::process::exit(2); }
    let text = match std::fs::read_to_string(&args[1]) { Ok(t) => t, Err(e) => { eprintln!("cannot read {}: {e}", args[1]); std::process::exit(2); } };
    let v: serde_json::Value = match serde_json::from_str(&text) { Ok(v) => v, Err(e) => { eprintln!("bad json: {e}"); std::process::exit(2); } };
    let mut timeout = args.get(2).and_then(|s| s.parse::<u64>().ok()).unwrap_or(10);
    // a search runs many histories: its own budget bounds it, the watchdog only guards a single spinning call
    if v.get("kind").and_then(|k| k.as_str()) == Some("search") {
        timeout = timeout.max((v.get("budget_ms").and_then(|x| x.as_u64()).unwrap_or(20000) + v.get("sample_ms").and_then(|x| x.as_u64()).unwrap_or(0)) / 1000 + 15);
    }
    let (tx, rx) = mpsc::channel();
    std::thread::spawn(move || { let _ = tx.send(run(v)); });
    match rx.recv_timeout(Duration::from_secs(timeout)) {
        Ok(Ok(rep)) => {
            if rep.lines.is_empty() { println!("REPLAY-OK"); std::process::exit(0); }
            for l in &rep.lines { println!("{l}"); }
            std::process::exit(1);
        }
        Ok(Err(e)) => { eprintln!("replay error: {e}"); std::process::exit(2); }
        Err(_) => {
            println!("REPLAY-VIOLATION property=C06 clause=match_order.terminates the replayed history did not return within {timeout}s (the call is still spinning)");
            if let Ok(g) = CURRENT.try_lock() { if let Some(h) = g.as_ref() { println!("REPLAY-FOUND {h}"); } }
            std::process::exit(1);
        }
    }
}
