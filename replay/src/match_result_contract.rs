//! Executable form of the C02 contract on an incrementally built `MatchResult` at boundary quantities:
//! add_transaction appends, lowers `remaining_quantity` by the transaction's quantity (saturating at 0) and sets
//! `is_complete` exactly when nothing remains; so remaining = initial - sum of the transactions while the sum fits.
//! Witness finder only (used when the verifier cannot process the body, and in the cheap cross-check).
use crate::{oid, Report};
use pricelevel::{MatchResult, Side, Transaction};

pub fn run(_v: &serde_json::Value, rep: &mut Report) -> Result<(), String> {
    let b63: u64 = 1 << 63;
    let initials: Vec<u64> = vec![0, 1, 2, 10, 255, 256, u32::MAX as u64, u32::MAX as u64 + 1, (1 << 53) + 1, b63 - 1, b63, b63 + 5, u64::MAX - 1, u64::MAX];
    let steps: Vec<u64> = vec![1, 2, 9, 10, 256, u32::MAX as u64 + 1, b63 - 1, b63, u64::MAX];
    let ns = uuid::Uuid::parse_str("6ba7b810-9dad-11d1-80b4-00c04fd430c8").unwrap();
    let mut n = 0u64;
    for &init in &initials {
        for &a in &steps { for &b in &steps {
            let mut r = MatchResult::new(oid(900), init);
            if r.remaining_quantity != init || r.is_complete != (init == 0) && r.is_complete { rep.violation("C02", "MatchResult.new.remaining_is_requested", format!("new(_, {init}) has remaining={} complete={}", r.remaining_quantity, r.is_complete)); return Ok(()); }
            let mut want = init; let mut sum: u128 = 0;
            for (k, q) in [a, b].into_iter().enumerate() {
                n += 1;
                let t = Transaction::new(uuid::Uuid::new_v5(&ns, n.to_string().as_bytes()), oid(900), oid(k as u64 + 1), 100, q, Side::Buy);
                r.add_transaction(t);
                want = want.saturating_sub(q); sum += q as u128;
                let listed: u128 = r.transactions.as_vec().iter().map(|t| t.quantity as u128).sum();
                if r.transactions.as_vec().len() != k + 1 || listed != sum { rep.violation("C02", "MatchResult.add_transaction.appends", format!("initial={init} after adding {:?}: {} transactions summing to {listed}", &[a, b][..=k], r.transactions.as_vec().len())); return Ok(()); }
                if sum <= u64::MAX as u128 && r.executed_quantity() as u128 != sum { rep.violation("C02", "MatchResult.executed_quantity.sum_of_the_transactions", format!("initial={init} after transactions {:?}: executed_quantity()={} but they sum to {sum}", &[a, b][..=k], r.executed_quantity())); return Ok(()); }
                if r.remaining_quantity != want { rep.violation("C02", "MatchResult.add_transaction.remaining_is_initial_minus_sum", format!("initial={init} after transactions {:?}: remaining_quantity={} but initial - sum (saturating at 0) = {want}", &[a, b][..=k], r.remaining_quantity)); return Ok(()); }
                if r.is_complete != (r.remaining_quantity == 0) { rep.violation("C02", "MatchResult.add_transaction.complete_iff_nothing_remains", format!("initial={init} after transactions {:?}: is_complete={} remaining={}", &[a, b][..=k], r.is_complete, r.remaining_quantity)); return Ok(()); }
            }
        } }
    }
    eprintln!("match_result_contract: {n} add_transaction calls at boundary quantities, contract holds");
    Ok(())
}
