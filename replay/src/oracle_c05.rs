// Executable form of the C05 contract on `OrderType::match_against` (same clause names as the Verus
// sidecar contracts/common/ordertype_fns.rs.tmpl).  Shared, via #[path], by the Kani harnesses
// (counterexample source / second proof on the compiled crate) and by the replay binary (confirms a
// counterexample on the real library).  It is never used to *pass* a property.
use pricelevel::OrderType;

#[derive(Clone, Copy, PartialEq, Eq, Debug)]
pub enum Kind { Standard, Iceberg, PostOnly, TrailingStop, Pegged, MarketToLimit, Reserve }

pub fn kind_of(o: &OrderType<()>) -> Kind {
    match o {
        OrderType::Standard { .. } => Kind::Standard,
        OrderType::IcebergOrder { .. } => Kind::Iceberg,
        OrderType::PostOnly { .. } => Kind::PostOnly,
        OrderType::TrailingStop { .. } => Kind::TrailingStop,
        OrderType::PeggedOrder { .. } => Kind::Pegged,
        OrderType::MarketToLimit { .. } => Kind::MarketToLimit,
        OrderType::ReserveOrder { .. } => Kind::Reserve,
    }
}

/// identity + type parameters (everything except displayed / hidden quantity)
pub fn same_identity(a: &OrderType<()>, b: &OrderType<()>) -> bool {
    use OrderType::*;
    if !(a.id() == b.id() && a.price() == b.price() && a.side() == b.side()
        && a.timestamp() == b.timestamp() && a.time_in_force() == b.time_in_force()
        && kind_of(a) == kind_of(b)) {
        return false;
    }
    match (a, b) {
        (TrailingStop { trail_amount: x1, last_reference_price: y1, .. },
         TrailingStop { trail_amount: x2, last_reference_price: y2, .. }) => x1 == x2 && y1 == y2,
        (PeggedOrder { reference_price_offset: x1, reference_price_type: y1, .. },
         PeggedOrder { reference_price_offset: x2, reference_price_type: y2, .. }) => x1 == x2 && y1 == y2,
        (ReserveOrder { replenish_threshold: x1, replenish_amount: y1, auto_replenish: z1, .. },
         ReserveOrder { replenish_threshold: x2, replenish_amount: y2, auto_replenish: z2, .. }) => x1 == x2 && y1 == y2 && z1 == z2,
        _ => true,
    }
}

/// One boolean per clause of the contract (true when the clause holds or does not apply).
#[derive(Clone, Copy, Debug)]
pub struct C05 {
    pub consumes_min: bool,
    pub remaining: bool,
    pub identity: bool,
    pub total_conserved: bool,
    pub hidden_accounting: bool,
    pub leaves_only_when_exhausted: bool,
    pub iceberg_new_tranche: bool,
    pub iceberg_leaves: bool,
    pub iceberg_partial: bool,
    pub reserve_rule: bool,
    pub plain_shrink: bool,
}

/// (label, field) table: the labels are the obligation names of the Verus sidecar.
#[macro_export]
macro_rules! c05_each {
    ($c:expr, $f:ident) => {
        $f!($c.consumes_min, "match_against.consumes_min_of_incoming_and_display");
        $f!($c.remaining, "match_against.remaining_is_incoming_minus_consumed");
        $f!($c.identity, "match_against.identity_and_parameters_unchanged");
        $f!($c.total_conserved, "match_against.total_conserved");
        $f!($c.hidden_accounting, "match_against.hidden_reduced_accounting");
        $f!($c.leaves_only_when_exhausted, "match_against.leaves_only_when_display_exhausted");
        $f!($c.iceberg_new_tranche, "match_against.iceberg_new_tranche");
        $f!($c.iceberg_leaves, "match_against.iceberg_leaves_when_nothing_hidden");
        $f!($c.iceberg_partial, "match_against.iceberg_partial_shrinks");
        $f!($c.reserve_rule, "match_against.reserve_replenish_rule");
        $f!($c.plain_shrink, "match_against.plain_types_shrink");
    };
}

/// Evaluates the contract.  Requires vis + hid <= u64::MAX.
pub fn c05_eval(o: &OrderType<()>, incoming: u64, r: &(u64, Option<OrderType<()>>, u64, u64)) -> C05 {
    let vis = o.visible_quantity();
    let hid = o.hidden_quantity();
    let (consumed, upd, hr, rem) = (r.0, r.1.as_ref(), r.2, r.3);
    let k = kind_of(o);
    let mut c = C05 { consumes_min: true, remaining: true, identity: true, total_conserved: true, hidden_accounting: true,
        leaves_only_when_exhausted: true, iceberg_new_tranche: true, iceberg_leaves: true, iceberg_partial: true,
        reserve_rule: true, plain_shrink: true };
    c.consumes_min = consumed == vis.min(incoming);
    c.remaining = consumed <= incoming && rem == incoming - consumed;
    c.identity = upd.map_or(true, |u| same_identity(o, u));
    c.total_conserved = upd.map_or(true, |u| {
        consumed <= vis && (u.visible_quantity() as u128 + u.hidden_quantity() as u128) == (vis as u128 + hid as u128 - consumed as u128)
    });
    c.hidden_accounting = upd.map_or(true, |u| hr <= hid && u.hidden_quantity() == hid - hr);
    c.leaves_only_when_exhausted = upd.is_some() || (hr == 0 && consumed == vis);
    if k == Kind::Iceberg {
        if vis <= incoming && hid > 0 {
            c.iceberg_new_tranche = upd.map_or(false, |u| u.visible_quantity() == hid.min(vis) && hr == u.visible_quantity());
        }
        if vis <= incoming && hid == 0 {
            c.iceberg_leaves = upd.is_none();
        }
        if vis > incoming {
            c.iceberg_partial = upd.map_or(false, |u| u.visible_quantity() == vis - incoming && hr == 0);
        }
    } else if let OrderType::ReserveOrder { replenish_threshold, replenish_amount, auto_replenish, .. } = o {
        let thr = if *auto_replenish && *replenish_threshold == 0 { 1 } else { *replenish_threshold };
        let amt = match replenish_amount { Some(a) => *a, None => 80u64 }.min(hid);
        let replenish = *auto_replenish && hid > 0 && (vis <= incoming || vis - incoming < thr);
        c.reserve_rule = if replenish {
            upd.map_or(false, |u| hr == amt && consumed <= vis && u.visible_quantity() as u128 == (vis - consumed) as u128 + amt as u128)
        } else if vis <= incoming {
            upd.is_none()
        } else {
            upd.map_or(false, |u| hr == 0 && u.visible_quantity() == vis - incoming)
        };
    } else {
        c.plain_shrink = if vis <= incoming { upd.is_none() } else { upd.map_or(false, |u| hr == 0 && u.visible_quantity() == vis - incoming) };
    }
    c
}
