// Executable forms of the loop-free contracts other than match_against (same clause names as the Verus
// sidecars).  Shared by the Kani harnesses (complete: loop-free, full-domain) and the replay binary.
use pricelevel::OrderType;

pub use crate::oracle_c05::same_identity;

pub fn sets_display(o: &OrderType<()>) -> bool {
    matches!(o, OrderType::Standard { .. } | OrderType::PostOnly { .. } | OrderType::IcebergOrder { .. })
}

/// with_reduced_quantity: (identity_kept, sets_display, others_unchanged)
pub fn wrq_eval(o: &OrderType<()>, q: u64, r: &OrderType<()>) -> (bool, bool, bool) {
    let id = same_identity(o, r);
    let sd = !sets_display(o) || (r.visible_quantity() == q && r.hidden_quantity() == o.hidden_quantity());
    let ou = sets_display(o) || (r.visible_quantity() == o.visible_quantity() && r.hidden_quantity() == o.hidden_quantity());
    (id, sd, ou)
}

/// refresh_iceberg: (identity_kept, takes_from_hidden, other_types_unchanged)
pub fn refresh_eval(o: &OrderType<()>, amount: u64, r: &(OrderType<()>, u64)) -> (bool, bool, bool) {
    let ice = matches!(o, OrderType::IcebergOrder { .. } | OrderType::ReserveOrder { .. });
    let id = same_identity(o, &r.0);
    let used = o.hidden_quantity().min(amount);
    let t = !ice || (r.0.visible_quantity() == amount && r.1 == used && r.0.hidden_quantity() == o.hidden_quantity() - used);
    let u = ice || (r.0.visible_quantity() == o.visible_quantity() && r.0.hidden_quantity() == o.hidden_quantity() && r.1 == 0);
    (id, t, u)
}
