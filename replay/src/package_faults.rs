//! Fault enumeration on a serialized snapshot package (C09), used only as a witness finder:
//! every single-byte deletion / substitution / insertion, every truncation, and checksum-prefix faults
//! combined with a content edit.  A restore that SUCCEEDS on a faulted text must yield exactly the content
//! that was snapshotted.
use crate::{build_order, JOrder, Report};
use pricelevel::{OrderType, PriceLevel};

fn content(l: &PriceLevel) -> (u64, u64, u64, usize, Vec<OrderType<()>>) {
    let mut o: Vec<OrderType<()>> = l.iter_orders().iter().map(|a| **a).collect();
    o.sort_by_key(|x| x.id().as_bytes());
    (l.price(), l.visible_quantity(), l.hidden_quantity(), l.order_count(), o)
}

pub fn run(v: &serde_json::Value, rep: &mut Report) -> Result<(), String> {
    let price = v.get("price").and_then(|x| x.as_u64()).unwrap_or(100);
    let level = PriceLevel::new(price);
    let default_orders = serde_json::json!([
        {"type":"Standard","id":1,"vis":10,"side":"Sell","ts":1},
        {"type":"Iceberg","id":2,"vis":5,"hid":20,"side":"Sell","ts":2},
        {"type":"Reserve","id":3,"vis":7,"hid":9,"threshold":2,"amount":4,"auto":true,"side":"Sell","ts":3}]);
    let orders = v.get("orders").cloned().unwrap_or(default_orders);
    for jo in orders.as_array().ok_or("orders must be a list")? {
        let mut jo: JOrder = serde_json::from_value(jo.clone()).map_err(|e| e.to_string())?;
        if jo.price == 0 { jo.price = price; }
        level.add_order(build_order(&jo)?);
    }
    let want = content(&level);
    let text = level.snapshot_to_json().map_err(|e| format!("snapshot_to_json failed: {e}"))?;
    let bytes = text.as_bytes().to_vec();
    let mut tried = 0u64;
    let mut check = |cand: Vec<u8>, what: String, rep: &mut Report| -> bool {
        tried += 1;
        let Ok(s) = String::from_utf8(cand) else { return false };
        if s == text { return false; }
        if let Ok(l) = PriceLevel::from_snapshot_json(&s) {
            if content(&l) != want {
                rep.violation("C09", "restore.accepts_tampered_package", format!("{what}: the faulted package restores successfully with different content; faulted text = {s}"));
                return true;
            }
            // same content: accepted only if the stored checksum still equals the original one exactly
            let orig: serde_json::Value = serde_json::from_str(&text).unwrap();
            if let Ok(j) = serde_json::from_str::<serde_json::Value>(&s) {
                // the faulted text parses to a DIFFERENT package (some field, e.g. a stored aggregate, the checksum or
                // the version was altered) and is nevertheless accepted
                if j != orig {
                    rep.violation("C09", "restore.accepts_tampered_package", format!("{what}: a package that differs from the original in some field is accepted; faulted text = {s}"));
                    return true;
                }
            }
        }
        false
    };
    // single-byte faults
    for i in 0..bytes.len() {
        let mut d = bytes.clone(); d.remove(i);
        if check(d, format!("deletion at offset {i}"), rep) { return Ok(()); }
        for c in [b'0', b'1', b'9', b'a', b'f', b'"', b',', b'}', b' '] {
            if bytes[i] != c { let mut m = bytes.clone(); m[i] = c; if check(m, format!("substitution at offset {i}"), rep) { return Ok(()); } }
            let mut n = bytes.clone(); n.insert(i, c); if check(n, format!("insertion at offset {i}"), rep) { return Ok(()); }
        }
        if check(bytes[..i].to_vec(), format!("truncation to {i} bytes"), rep) { return Ok(()); }
    }
    // pairs: checksum shortened to a prefix + a content edit
    let j: serde_json::Value = serde_json::from_str(&text).map_err(|e| e.to_string())?;
    if let Some(cs) = j.get("checksum").and_then(|c| c.as_str()) {
        for k in 0..cs.len() {
            let mut jj = j.clone();
            jj["checksum"] = serde_json::json!(&cs[..k]);
            jj["snapshot"]["price"] = serde_json::json!(price + 1);
            if check(serde_json::to_vec(&jj).unwrap(), format!("checksum cut to {k} chars + price edit"), rep) { return Ok(()); }
        }
    }
    eprintln!("package_faults: {tried} faulted packages, none accepted with altered content");
    Ok(())
}
