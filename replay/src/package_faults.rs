//! Fault enumeration on a serialized snapshot package (C09), used only as a witness finder:
//! every single-byte deletion / substitution / insertion, every truncation, and checksum-prefix faults
//! combined with a content edit.  A restore that SUCCEEDS on a faulted text must yield exactly the content
//! that was snapshotted.
use crate::{build_order, JOrder, Report};
use pricelevel::{OrderType, PriceLevel};

fn content(l: &PriceLevel) -> (u64, u64, u64, usize, Vec<OrderType<()>>) {
    let mut o: Vec<OrderType<()>> = l.iter_orders().iter().map(|a| **a).collect();
    o.sort_by_key(|x| x.id().as_bytes());
    (l.price(), l.visible_quantity(), l.hidden_quantity(), l.order_count(), o)
}

pub fn run(v: &serde_json::Value, rep: &mut Report) -> Result<(), String> {
    let price = v.get("price").and_then(|x| x.as_u64()).unwrap_or(100);
    let level = PriceLevel::new(price);
    let default_orders = serde_json::json!([
        {"type":"Standard","id":1,"vis":10,"side":"Sell","ts":1},
        {"type":"Iceberg","id":2,"vis":5,"hid":20,"side":"Sell","ts":2},
        {"type":"Reserve","id":3,"vis":7,"hid":9,"threshold":2,"amount":4,"auto":true,"side":"Sell","ts":3},
        {"type":"PostOnly","id_str":"01ARZ3NDEKTSV4RRFFQ69G5FAV","vis":7,"side":"Buy","ts":4,"tif":"Ioc"},
        {"type":"TrailingStop","id":5,"vis":6,"side":"Sell","ts":5,"tif":"Fok","trail_amount":25,"last_reference_price":10500},
        {"type":"PeggedOrder","id":6,"vis":8,"side":"Sell","ts":6,"tif":"Gtd","gtd":18446744073709551615u64,"reference_price_offset":-50,"reference_price_type":"MidPrice"},
        {"type":"MarketToLimit","id_str":"6ba7b810-9dad-11d1-80b4-00c04fd430c8","vis":9,"side":"Sell","ts":9007199254740993u64},
        {"type":"Reserve","id":8,"vis":0,"hid":6,"threshold":0,"auto":false,"side":"Sell","ts":7}]);
    let orders = v.get("orders").cloned().unwrap_or(default_orders);
    for jo in orders.as_array().ok_or("orders must be a list")? {
        let mut jo: JOrder = serde_json::from_value(jo.clone()).map_err(|e| e.to_string())?;
        if jo.price == 0 { jo.price = price; }
        level.add_order(build_order(&jo)?);
    }
    let want = content(&level);
    let text = level.snapshot_to_json().map_err(|e| format!("snapshot_to_json failed: {e}"))?;
    let bytes = text.as_bytes().to_vec();
    let mut tried = 0u64;
    let mut check = |cand: Vec<u8>, what: String, rep: &mut Report| -> bool {
        tried += 1;
        let Ok(s) = String::from_utf8(cand) else { return false };
        if s == text { return false; }
        if let Ok(l) = PriceLevel::from_snapshot_json(&s) {
            if content(&l) != want {
                rep.violation("C09", "restore.accepts_tampered_package", format!("{what}: the faulted package restores successfully with different content; faulted text = {s}"));
                return true;
            }
            // same content: accepted only if the stored checksum still equals the original one exactly
            let orig: serde_json::Value = serde_json::from_str(&text).unwrap();
            if let Ok(j) = serde_json::from_str::<serde_json::Value>(&s) {
                // the faulted text parses to a DIFFERENT package (some field, e.g. a stored aggregate, the checksum or
                // the version was altered) and is nevertheless accepted
                // compared by VALUE: version, checksum, price, stored aggregates, and the sequence of orders field for
                // field (a different spelling of the same value - e.g. a ULID in lower case - is not an alteration)
                let key = |j: &serde_json::Value| {
                    let os: Option<Vec<OrderType<()>>> = j["snapshot"]["orders"].as_array().map(|a| a.iter().filter_map(|o| serde_json::from_value::<OrderType<()>>(o.clone()).ok()).collect());
                    (j["version"].clone(), j["checksum"].clone(), j["snapshot"]["price"].clone(), j["snapshot"]["visible_quantity"].clone(), j["snapshot"]["hidden_quantity"].clone(), j["snapshot"]["order_count"].clone(),
                     j["snapshot"]["orders"].as_array().map(|a| a.len()), os)
                };
                if key(&j) != key(&orig) {
                    rep.violation("C09", "restore.accepts_tampered_package", format!("{what}: a package that differs from the original in some field is accepted; faulted text = {s}"));
                    return true;
                }
            }
        }
        false
    };
    // single-byte faults
    for i in 0..bytes.len() {
        let mut d = bytes.clone(); d.remove(i);
        if check(d, format!("deletion at offset {i}"), rep) { return Ok(()); }
        for c in [b'0', b'1', b'9', b'a', b'f', b'"', b',', b'}', b' '] {
            if bytes[i] != c { let mut m = bytes.clone(); m[i] = c; if check(m, format!("substitution at offset {i}"), rep) { return Ok(()); } }
            let mut n = bytes.clone(); n.insert(i, c); if check(n, format!("insertion at offset {i}"), rep) { return Ok(()); }
        }
        if check(bytes[..i].to_vec(), format!("truncation to {i} bytes"), rep) { return Ok(()); }
    }
    // pairs: checksum shortened to a prefix + a content edit
    let j: serde_json::Value = serde_json::from_str(&text).map_err(|e| e.to_string())?;
    if let Some(cs) = j.get("checksum").and_then(|c| c.as_str()) {
        for k in 0..cs.len() {
            let mut jj = j.clone();
            jj["checksum"] = serde_json::json!(&cs[..k]);
            jj["snapshot"]["price"] = serde_json::json!(price + 1);
            if check(serde_json::to_vec(&jj).unwrap(), format!("checksum cut to {k} chars + price edit"), rep) { return Ok(()); }
        }
    }
    // structural edits on the parsed package: every leaf value altered, orders swapped / dropped / duplicated, version changed
    fn leaves(v: &serde_json::Value, path: &mut Vec<String>, out: &mut Vec<Vec<String>>) {
        match v {
            serde_json::Value::Object(m) => for (k, x) in m { path.push(k.clone()); leaves(x, path, out); path.pop(); },
            serde_json::Value::Array(a) => for (i, x) in a.iter().enumerate() { path.push(i.to_string()); leaves(x, path, out); path.pop(); },
            _ => out.push(path.clone()),
        }
    }
    fn at<'a>(v: &'a mut serde_json::Value, path: &[String]) -> &'a mut serde_json::Value {
        let mut cur = v;
        for k in path { cur = if cur.is_array() { &mut cur[k.parse::<usize>().unwrap()] } else { &mut cur[k.as_str()] }; }
        cur
    }
    let mut ls = vec![]; leaves(&j, &mut vec![], &mut ls);
    for path in &ls {
        let orig = at(&mut j.clone(), path).clone();
        let mut alts: Vec<serde_json::Value> = vec![];
        match &orig {
            serde_json::Value::Number(n) => { if let Some(u) = n.as_u64() { alts.push(serde_json::json!(u.wrapping_add(1))); alts.push(serde_json::json!(u / 2)); alts.push(serde_json::json!(0)); } else if let Some(i) = n.as_i64() { alts.push(serde_json::json!(i.wrapping_add(1))); alts.push(serde_json::json!(-i)); } }
            serde_json::Value::String(t) => { let mut c: Vec<char> = t.chars().collect(); if let Some(x) = c.last_mut() { *x = if *x == '0' { '1' } else { '0' }; } alts.push(serde_json::json!(c.iter().collect::<String>())); alts.push(serde_json::json!("")); alts.push(serde_json::json!("Buy")); alts.push(serde_json::json!("Gtc")); }
            serde_json::Value::Bool(b) => alts.push(serde_json::json!(!b)),
            serde_json::Value::Null => { alts.push(serde_json::json!(0)); alts.push(serde_json::json!(1)); }
            _ => {}
        }
        for a in alts {
            if a == orig { continue; }
            let mut jj = j.clone(); *at(&mut jj, path) = a;
            if check(serde_json::to_vec(&jj).unwrap(), format!("field {} edited", path.join(".")), rep) { return Ok(()); }
        }
    }
    if let Some(n) = j["snapshot"]["orders"].as_array().map(|a| a.len()) {
        for i in 0..n {
            let mut jj = j.clone(); jj["snapshot"]["orders"].as_array_mut().unwrap().remove(i);
            if check(serde_json::to_vec(&jj).unwrap(), format!("order #{i} dropped"), rep) { return Ok(()); }
            let mut jj = j.clone(); let d = jj["snapshot"]["orders"][i].clone(); jj["snapshot"]["orders"].as_array_mut().unwrap().insert(i, d);
            if check(serde_json::to_vec(&jj).unwrap(), format!("order #{i} duplicated"), rep) { return Ok(()); }
            if i + 1 < n { let mut jj = j.clone(); jj["snapshot"]["orders"].as_array_mut().unwrap().swap(i, i + 1);
                if check(serde_json::to_vec(&jj).unwrap(), format!("orders #{i} and #{} swapped", i + 1), rep) { return Ok(()); } }
        }
    }
    eprintln!("package_faults: {tried} faulted packages (byte faults, truncations, checksum-prefix pairs, every field edited, orders swapped / dropped / duplicated), none accepted with altered content");
    Ok(())
}
