//! Replays a single-threaded history on the exported `OrderQueue` (C19).
use crate::{build_order, oid, JOrder, Report};
use pricelevel::{OrderId, OrderQueue};
use std::sync::Arc;

pub fn run(v: &serde_json::Value, rep: &mut Report) -> Result<(), String> {
    let ops = v.get("ops").and_then(|x| x.as_array()).ok_or("missing ops")?;
    let mut q = OrderQueue::new();
    let mut model: Vec<OrderId> = vec![]; // FIFO of currently queued ids, in push order
    // executable form of the PROVED contracts: tickets are appended by push, consumed by pop, untouched by remove
    let mut tickets: std::collections::VecDeque<OrderId> = std::collections::VecDeque::new();
    let allow_repush = v.get("allow_repush").and_then(|x| x.as_bool()).unwrap_or(true);
    for (step, op) in ops.iter().enumerate() {
        let name = op.get("op").and_then(|x| x.as_str()).ok_or("op without name")?;
        match name {
            "push" => {
                let jo: JOrder = serde_json::from_value(op.get("order").cloned().ok_or("push without order")?).map_err(|e| e.to_string())?;
                let o = build_order(&jo)?;
                if model.contains(&o.id()) { return Err(format!("step {step}: id already queued (outside the property's domain)")); }
                q.push(Arc::new(o));
                model.push(o.id());
                tickets.push_back(o.id());
                let _ = allow_repush;
            }
            "build" => {
                // replace the queue by one built from a list (From<Vec<..>>): it must hand the orders out in list order
                let list = op.get("orders").and_then(|x| x.as_array()).ok_or("build without orders")?;
                let mut v = vec![];
                model.clear(); tickets.clear();
                for jo in list {
                    let jo: JOrder = serde_json::from_value(jo.clone()).map_err(|e| e.to_string())?;
                    let o = build_order(&jo)?;
                    if model.contains(&o.id()) { return Err("duplicate id in build list".into()); }
                    model.push(o.id()); tickets.push_back(o.id());
                    v.push(Arc::new(o));
                }
                q = if op.get("via").and_then(|x| x.as_str()) == Some("from_vec") { OrderQueue::from_vec(v) } else { OrderQueue::from(v) };
            }
            "pop" => {
                let got = q.pop().map(|o| o.id());
                let mut by_tickets = None;
                while let Some(t) = tickets.pop_front() { if model.contains(&t) { by_tickets = Some(t); break; } }
                if got != by_tickets { rep.violation("C19", "pop.follows_ticket_order", format!("step={step} popped {got:?} but the earliest ticket of a queued order is {by_tickets:?}")); }
                let want = if model.is_empty() { None } else { Some(model.remove(0)) };
                if got != want {
                    rep.violation("C19", "pop.fifo_order", format!("step={step} popped {got:?} but the earliest pushed, still queued id is {want:?}"));
                    if let Some(g) = got { model.retain(|x| *x != g); if let Some(w) = want { if w != g { model.insert(0, w); } } }
                }
            }
            "remove" => {
                let id = oid(op.get("id").and_then(|x| x.as_u64()).ok_or("remove without id")?);
                let got = q.remove(id).map(|o| o.id());
                let want = if model.contains(&id) { Some(id) } else { None };
                if got != want { rep.violation("C19", "remove.exact", format!("step={step} got {got:?} want {want:?}")); }
                model.retain(|x| *x != id);
            }
            "find" => {
                let id = oid(op.get("id").and_then(|x| x.as_u64()).ok_or("find without id")?);
                let got = q.find(id).map(|o| o.id());
                let want = if model.contains(&id) { Some(id) } else { None };
                if got != want { rep.violation("C19", "find.exact", format!("step={step} got {got:?} want {want:?}")); }
            }
            other => return Err(format!("unknown op {other}")),
        }
        if q.len() != model.len() { rep.violation("C19", "len.exact", format!("step={step} len()={} queued={}", q.len(), model.len())); }
        if q.is_empty() != model.is_empty() { rep.violation("C19", "is_empty.exact", format!("step={step}")); }
        let mut l: Vec<OrderId> = q.to_vec().iter().map(|o| o.id()).collect();
        let n = l.len(); l.dedup();
        if n != model.len() || l.len() != n || !model.iter().all(|m| l.contains(m)) { rep.violation("C19", "to_vec.each_once", format!("step={step}")); }
        if v.get("legs").and_then(|x| x.as_bool()).unwrap_or(true) { legs_only(&q, rep, step); }
    }
    Ok(())
}

/// assumed legs of C19 (Display / FromStr / Serialize / Deserialize run through str and serde, outside both verifiers):
/// cross-checked on the real library - the rebuilt queue holds the same orders, field for field
pub fn legs_only(q: &OrderQueue, rep: &mut Report, step: usize) {
    let want: std::collections::HashMap<OrderId, pricelevel::OrderType<()>> = q.to_vec().iter().map(|a| (a.id(), **a)).collect();
    let same = |t: &OrderQueue| { let got: std::collections::HashMap<OrderId, pricelevel::OrderType<()>> = t.to_vec().iter().map(|a| (a.id(), **a)).collect(); got == want && t.len() == q.len() };
    match q.to_string().parse::<OrderQueue>() {
        Ok(t) => if !same(&t) { rep.violation("C19", "roundtrip.text_form_same_orders", format!("step={step}: {} parses to different orders", q)); },
        Err(e) => rep.violation("C19", "roundtrip.text_form_same_orders", format!("step={step}: {} does not parse: {e}", q)),
    }
    match serde_json::to_string(&q).map_err(|e| e.to_string()).and_then(|j| serde_json::from_str::<OrderQueue>(&j).map_err(|e| format!("{e} in {j}"))) {
        Ok(t) => if !same(&t) { rep.violation("C19", "roundtrip.json_form_same_orders", format!("step={step}: JSON form deserializes to different orders")); },
        Err(e) => rep.violation("C19", "roundtrip.json_form_same_orders", format!("step={step}: JSON round trip failed: {e}")),
    }
}
