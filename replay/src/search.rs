//! Bounded search for a concrete failing history (kind "search").  Used ONLY to attach a concrete input
//! to an obligation the verifier already failed, or to decide a run in which proof hints lost their
//! anchors; a history it returns is a real execution of the real library that violates the executable
//! form of a contract clause.  Finding nothing proves nothing and is never reported as success.
use crate::Report;
use serde_json::{json, Value};
use std::sync::{Arc, Mutex};
use std::time::{Duration, Instant};

fn alphabet() -> Vec<Value> {
    let mut a = vec![];
    let orders = vec![
        json!({"type":"Standard","vis":5}),
        json!({"type":"Standard","vis":0}),
        json!({"type":"Iceberg","vis":5,"hid":3}),
        json!({"type":"Iceberg","vis":3,"hid":10}),
        json!({"type":"Reserve","vis":5,"hid":4,"threshold":2,"amount":10,"auto":true}),
        json!({"type":"Reserve","vis":0,"hid":6,"threshold":0,"auto":true}),
        json!({"type":"Reserve","vis":5,"hid":5,"threshold":0,"amount":0,"auto":true}),
        json!({"type":"Reserve","vis":4,"hid":6,"threshold":3,"auto":false}),
        json!({"type":"MarketToLimit","vis":6}),
        json!({"type":"PostOnly","vis":4}),
        json!({"type":"TrailingStop","vis":7}),
    ];
    for o in orders { a.push(json!({"op":"add","order":o})); }
    for q in [1u64, 3, 5, 7, 50] { a.push(json!({"op":"match","qty":q})); }
    for id in [1u64, 2] { a.push(json!({"op":"cancel","id":id})); }
    for (id, q) in [(1u64, 0u64), (1, 2), (1, 9), (2, 3)] { a.push(json!({"op":"update_qty","id":id,"qty":q})); }
    a.push(json!({"op":"update_price","id":1,"price":101}));
    a.push(json!({"op":"update_price","id":1,"price":100}));
    a.push(json!({"op":"update_price_qty","id":1,"price":100,"qty":4}));
    a.push(json!({"op":"replace","id":2,"price":100,"qty":6}));
    a.push(json!({"op":"cancel","id":9}));
    a.push(json!({"op":"read"}));
    a.push(json!({"op":"fork_restore"}));
    a
}

/// assigns ids to adds (k-th add gets id k, ts = k) and drops histories that break the property's own domain
fn materialize(seq: &[usize], alpha: &[Value]) -> Option<Vec<Value>> {
    let mut ops = vec![];
    let mut adds = 0u64;
    let mut forked = false;
    for (pos, &i) in seq.iter().enumerate() {
        let mut op = alpha[i].clone();
        match op["op"].as_str().unwrap() {
            "add" => {
                adds += 1;
                op["order"]["id"] = json!(adds);
                op["order"]["ts"] = json!(adds);
                op["order"]["side"] = json!("Sell");
            }
            "fork_restore" => { if forked || pos == 0 { return None; } forked = true; }
            _ => { if pos == 0 { return None; } }
        }
        ops.push(op);
    }
    Some(ops)
}

pub fn run(v: &Value, rep: &mut Report) -> Result<(), String> {
    let prop = v.get("property").and_then(|x| x.as_str()).ok_or("search without property")?.to_string();
    let depth = v.get("depth").and_then(|x| x.as_u64()).unwrap_or(4) as usize;
    let budget = Duration::from_millis(v.get("budget_ms").and_then(|x| x.as_u64()).unwrap_or(20000));
    let exclude: Vec<String> = v.get("exclude").and_then(|x| x.as_array()).map(|a| a.iter().filter_map(|s| s.as_str().map(String::from)).collect()).unwrap_or_default();
    let alpha = alphabet();
    let t0 = Instant::now();
    let current: Arc<Mutex<Option<Value>>> = crate::CURRENT.clone();
    let mut tried: u64 = 0;
    for d in 1..=depth {
        let mut idx = vec![0usize; d];
        'outer: loop {
            if t0.elapsed() > budget { break; }
            if let Some(ops) = materialize(&idx, &alpha) {
                let hist = json!({"kind":"level_history","price":100,"ops":ops});
                *current.lock().unwrap() = Some(hist.clone());
                let mut r = Report::default();
                if crate::level_history::run(&hist, &mut r).is_ok() {
                    tried += 1;
                    let hits: Vec<&String> = r.lines.iter().filter(|l| l.contains(&format!("property={prop} ")) && !exclude.iter().any(|e| l.contains(&format!("clause={e} ")))).collect();
                    if !hits.is_empty() {
                        for h in hits.iter().take(3) { rep.lines.push((*h).clone()); }
                        rep.lines.push(format!("REPLAY-FOUND {}", hist));
                        return Ok(());
                    }
                }
                *current.lock().unwrap() = None;
            }
            // next index vector
            let mut k = d;
            loop {
                if k == 0 { break 'outer; }
                k -= 1;
                idx[k] += 1;
                if idx[k] < alpha.len() { break; }
                idx[k] = 0;
            }
        }
    }
    eprintln!("search: {tried} histories up to depth {depth} in {:?}, nothing found for {prop}", t0.elapsed());
    Ok(())
}
