//! Bounded search for a concrete failing history (kind "search").  Used ONLY to attach a concrete input
//! to an obligation the verifier already failed, or to decide a run in which proof hints lost their
//! anchors; a history it returns is a real execution of the real library that violates the executable
//! form of a contract clause.  Finding nothing proves nothing and is never reported as success.
use crate::Report;
use serde_json::{json, Value};
use std::sync::{Arc, Mutex};
use std::time::{Duration, Instant};

fn alphabet(with_foreign_price: bool) -> Vec<Value> {
    let mut a = vec![];
    let orders = vec![
        json!({"type":"Standard","vis":5}),
        json!({"type":"Standard","vis":0}),
        json!({"type":"Iceberg","vis":5,"hid":3}),
        json!({"type":"Iceberg","vis":3,"hid":10}),
        json!({"type":"Reserve","vis":5,"hid":4,"threshold":2,"amount":10,"auto":true}),
        json!({"type":"Reserve","vis":0,"hid":6,"threshold":0,"auto":true}),
        json!({"type":"Reserve","vis":5,"hid":5,"threshold":0,"amount":0,"auto":true}),
        json!({"type":"Reserve","vis":4,"hid":6,"threshold":3,"auto":false}),
        json!({"type":"MarketToLimit","vis":6}),
        json!({"type":"PostOnly","vis":4}),
        json!({"type":"TrailingStop","vis":7}),
    ];
    for o in orders { a.push(json!({"op":"add","order":o})); }
    // arrivals that carry the SAME timestamp as the previous arrival (ties are inside the quantifiers of C04 / C10 / C11)
    a.push(json!({"op":"add","tie":true,"order":{"type":"Standard","vis":5}}));
    a.push(json!({"op":"add","tie":true,"order":{"type":"PostOnly","vis":4}}));
    if with_foreign_price { a.push(json!({"op":"add","order":{"type":"PeggedOrder","vis":6,"price":99}})); }
    for q in [0u64, 1, 3, 5, 7, 50] { a.push(json!({"op":"match","qty":q})); }   // a zero-size match is a match request too
    for id in [1u64, 2] { a.push(json!({"op":"cancel","id":id})); }
    for (id, q) in [(1u64, 0u64), (1, 2), (1, 9), (2, 3)] { a.push(json!({"op":"update_qty","id":id,"qty":q})); }
    a.push(json!({"op":"update_price","id":1,"price":101}));
    a.push(json!({"op":"update_price","id":1,"price":100}));
    a.push(json!({"op":"update_price_qty","id":1,"price":100,"qty":4}));
    a.push(json!({"op":"replace","id":2,"price":100,"qty":6}));
    a.push(json!({"op":"replace","id":1,"price":100,"qty":0}));
    a.push(json!({"op":"cancel","id":9}));
    a.push(json!({"op":"replace","id":9,"price":101,"qty":5}));   // price-changing update of an id that is not resting
    a.push(json!({"op":"read"}));
    a.push(json!({"op":"fork_restore"}));
    a
}

/// assigns ids to adds (k-th add gets id k, ts = k) and drops histories that break the property's own domain
fn materialize(seq: &[usize], alpha: &[Value]) -> Option<Vec<Value>> {
    let mut ops = vec![];
    let mut adds = 0u64;
    let mut forked = false;
    for (pos, &i) in seq.iter().enumerate() {
        let mut op = alpha[i].clone();
        match op["op"].as_str().unwrap() {
            "add" => {
                adds += 1;
                op["order"]["id"] = json!(adds);
                let tie = op.get("tie").and_then(|x| x.as_bool()).unwrap_or(false);
                if tie && adds == 1 { return None; }
                op["order"]["ts"] = json!(if tie { adds - 1 } else { adds });
                op["order"]["side"] = json!("Sell");
            }
            "fork_restore" => { if forked || pos == 0 { return None; } forked = true; }
            _ => { if pos == 0 { return None; } }
        }
        ops.push(op);
    }
    Some(ops)
}

fn queue_alphabet() -> Vec<Value> {
    let mut a = vec![];
    for id in [1u64, 2, 3] { a.push(json!({"op":"push","order":{"type":"Standard","id":id,"price":100,"vis":if id == 3 { 0 } else { 5 },"side":"Sell","ts":id}})); }
    // (orders with nothing displayed, all order types and the text / JSON legs are covered by w-qzoo-all-types and legs_fuzz:
    //  the history search keeps a small alphabet so that depth 7 stays within its budget, and runs without the legs)
    a.push(json!({"op":"pop"}));
    for id in [1u64, 2] { a.push(json!({"op":"remove","id":id})); }
    a.push(json!({"op":"find","id":1}));
    // queues built from a list whose timestamps are not monotone in list order
    let l = json!([{"type":"Standard","id":1,"price":100,"vis":5,"side":"Sell","ts":5},{"type":"Standard","id":2,"price":100,"vis":5,"side":"Sell","ts":1},{"type":"Standard","id":3,"price":100,"vis":5,"side":"Sell","ts":3}]);
    a.push(json!({"op":"build","orders":l.clone(),"via":"from"}));
    a.push(json!({"op":"build","orders":l,"via":"from_vec"}));
    a
}

/// queue histories: an id may be pushed again only after it left the queue (the property's own domain)
fn materialize_queue(seq: &[usize], alpha: &[Value]) -> Option<Vec<Value>> {
    let mut queued: Vec<u64> = vec![];
    let mut fifo: std::collections::VecDeque<u64> = std::collections::VecDeque::new();
    let mut ops = vec![];
    for &i in seq {
        let op = alpha[i].clone();
        match op["op"].as_str().unwrap() {
            "push" => { let id = op["order"]["id"].as_u64().unwrap(); if queued.contains(&id) { return None; } queued.push(id); fifo.push_back(id); }
            "build" => { queued = vec![1, 2, 3]; fifo = [1u64, 2, 3].into_iter().collect(); }
            "remove" => { let id = op["id"].as_u64().unwrap(); queued.retain(|x| *x != id); }
            "pop" => { // which id leaves is decided by the implementation; keep the over-approximation simple: forget all
                       // ids that could have left so that a later push of the same id is only generated after a removal
                while let Some(t) = fifo.pop_front() { if queued.contains(&t) { queued.retain(|x| *x != t); break; } } }
            _ => {}
        }
        ops.push(op);
    }
    Some(ops)
}

pub fn run(v: &Value, rep: &mut Report) -> Result<(), String> {
    if v.get("target").and_then(|x| x.as_str()) == Some("queue") { return run_queue(v, rep); }
    let prop = v.get("property").and_then(|x| x.as_str()).ok_or("search without property")?.to_string();
    let depth = v.get("depth").and_then(|x| x.as_u64()).unwrap_or(4) as usize;
    let budget = Duration::from_millis(v.get("budget_ms").and_then(|x| x.as_u64()).unwrap_or(20000));
    let exclude: Vec<String> = v.get("exclude").and_then(|x| x.as_array()).map(|a| a.iter().filter_map(|s| s.as_str().map(String::from)).collect()).unwrap_or_default();
    let require: Vec<String> = v.get("require").and_then(|x| x.as_array()).map(|a| a.iter().filter_map(|s| s.as_str().map(String::from)).collect()).unwrap_or_default();
    // add_order accepts an order carrying a price different from the level's: it is inside every property's domain except C15's value clause
    let alpha = alphabet(prop != "C15");   // C15's value clause is stated for levels whose orders carry the level's price
    let t0 = Instant::now();
    let current: Arc<Mutex<Option<Value>>> = crate::CURRENT.clone();
    let mut tried: u64 = 0;
    for d in 1..=depth {
        let mut idx = vec![0usize; d];
        'outer: loop {
            if t0.elapsed() > budget { break; }
            if let Some(ops) = materialize(&idx, &alpha) {
                let hist = json!({"kind":"level_history","price":100,"ops":ops,"legs": prop == "C10"});
                *current.lock().unwrap() = Some(hist.clone());
                let mut r = Report::default();
                if crate::level_history::run(&hist, &mut r).is_ok() {
                    tried += 1;
                    let hits: Vec<&String> = r.lines.iter().filter(|l| l.contains(&format!("property={prop} ")) && !exclude.iter().any(|e| l.contains(&format!("clause={e} ")))).collect();
                    // a deviation from the executable contract model counts only if the history also violates the
                    // property's own (ideal) oracle: a change that merely behaves BETTER than the contracts is no alarm
                    let co = require.iter().all(|q| r.lines.iter().any(|l| l.contains(&format!("clause={q} "))));
                    if !hits.is_empty() && co {
                        for h in hits.iter().take(3) { rep.lines.push((*h).clone()); }
                        rep.lines.push(format!("REPLAY-FOUND {}", hist));
                        return Ok(());
                    }
                }
                *current.lock().unwrap() = None;
            }
            // next index vector
            let mut k = d;
            loop {
                if k == 0 { break 'outer; }
                k -= 1;
                idx[k] += 1;
                if idx[k] < alpha.len() { break; }
                idx[k] = 0;
            }
        }
    }
    // second phase (thorough tier): the lexicographic enumeration above spends its whole budget on histories that begin
    // with the first few alphabet entries; sample longer histories pseudo-randomly (deterministic for the seed)
    let sample_ms = v.get("sample_ms").and_then(|x| x.as_u64()).unwrap_or(0);
    let sample_depth = v.get("sample_depth").and_then(|x| x.as_u64()).unwrap_or(6) as usize;
    let mut sampled: u64 = 0;
    if sample_ms > 0 {
        let mut x: u64 = v.get("seed").and_then(|x| x.as_u64()).unwrap_or(0).wrapping_mul(0x9E3779B97F4A7C15) | 1;
        let mut rnd = move || { x ^= x << 13; x ^= x >> 7; x ^= x << 17; x };
        let t1 = Instant::now();
        while t1.elapsed() < Duration::from_millis(sample_ms) {
            let d = 4 + (rnd() as usize) % (sample_depth - 3);
            let idx: Vec<usize> = (0..d).map(|k| if k == 0 { (rnd() as usize) % 13 } else { (rnd() as usize) % alpha.len() }).collect();   // first op: an add
            if let Some(ops) = materialize(&idx, &alpha) {
                let hist = json!({"kind":"level_history","price":100,"ops":ops,"legs": prop == "C10"});
                *current.lock().unwrap() = Some(hist.clone());
                let mut r = Report::default();
                if crate::level_history::run(&hist, &mut r).is_ok() {
                    sampled += 1;
                    let hits: Vec<&String> = r.lines.iter().filter(|l| l.contains(&format!("property={prop} ")) && !exclude.iter().any(|e| l.contains(&format!("clause={e} ")))).collect();
                    let co = require.iter().all(|q| r.lines.iter().any(|l| l.contains(&format!("clause={q} "))));
                    if !hits.is_empty() && co {
                        for h in hits.iter().take(3) { rep.lines.push((*h).clone()); }
                        rep.lines.push(format!("REPLAY-FOUND {}", hist));
                        return Ok(());
                    }
                }
                *current.lock().unwrap() = None;
            }
        }
    }
    eprintln!("search: {tried} histories enumerated up to depth {depth} and {sampled} sampled at depth 4..{sample_depth} in {:?}, nothing found for {prop}", t0.elapsed());
    Ok(())
}

fn run_queue(v: &Value, rep: &mut Report) -> Result<(), String> {
    let prop = v.get("property").and_then(|x| x.as_str()).unwrap_or("C19").to_string();
    let depth = v.get("depth").and_then(|x| x.as_u64()).unwrap_or(7) as usize;
    let budget = Duration::from_millis(v.get("budget_ms").and_then(|x| x.as_u64()).unwrap_or(20000));
    let exclude: Vec<String> = v.get("exclude").and_then(|x| x.as_array()).map(|a| a.iter().filter_map(|s| s.as_str().map(String::from)).collect()).unwrap_or_default();
    let require: Vec<String> = v.get("require").and_then(|x| x.as_array()).map(|a| a.iter().filter_map(|s| s.as_str().map(String::from)).collect()).unwrap_or_default();
    let alpha = queue_alphabet();
    let t0 = Instant::now();
    let mut tried: u64 = 0;
    for d in 1..=depth {
        let mut idx = vec![0usize; d];
        'outer: loop {
            if t0.elapsed() > budget { break; }
            if let Some(ops) = materialize_queue(&idx, &alpha) {
                let hist = json!({"kind":"queue_history","ops":ops,"legs":false});
                *crate::CURRENT.lock().unwrap() = Some(hist.clone());
                let mut r = Report::default();
                if crate::queue_history::run(&hist, &mut r).is_ok() {
                    tried += 1;
                    let hits: Vec<&String> = r.lines.iter().filter(|l| l.contains(&format!("property={prop} ")) && !exclude.iter().any(|e| l.contains(&format!("clause={e} ")))).collect();
                    // a deviation from the executable contract model counts only if the history also violates the
                    // property's own (ideal) oracle: a change that merely behaves BETTER than the contracts is no alarm
                    let co = require.iter().all(|q| r.lines.iter().any(|l| l.contains(&format!("clause={q} "))));
                    if !hits.is_empty() && co {
                        for h in hits.iter().take(3) { rep.lines.push((*h).clone()); }
                        rep.lines.push(format!("REPLAY-FOUND {}", hist));
                        return Ok(());
                    }
                }
                *crate::CURRENT.lock().unwrap() = None;
            }
            let mut k = d;
            loop {
                if k == 0 { break 'outer; }
                k -= 1;
                idx[k] += 1;
                if idx[k] < alpha.len() { break; }
                idx[k] = 0;
            }
        }
    }
    eprintln!("search(queue): {tried} histories up to depth {depth} in {:?}, nothing found for {prop}", t0.elapsed());
    Ok(())
}
