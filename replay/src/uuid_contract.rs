//! Executable form of the C14 contract on `UuidGenerator::next` at boundary counter values:
//! ids of different counters are distinct (also across the wrap and across digit-count boundaries), two generators over the
//! same namespace at the same counter return the same ids.  The derivation itself (v5 of the decimal counter) and the
//! counter step are NOT demanded here: the property fixes neither (they are obligations of the Verus contract on the code
//! as it is; a different, still injective derivation is no violation).
//! The counter is positioned through the generator's public serde form.  Witness finder only.
use crate::Report;
use pricelevel::UuidGenerator;
use std::collections::HashMap;

pub fn run(_v: &serde_json::Value, rep: &mut Report) -> Result<(), String> {
    let ns = uuid::Uuid::parse_str("6ba7b810-9dad-11d1-80b4-00c04fd430c8").unwrap();
    let mut starts: Vec<u64> = vec![0, 1, 8, 9, 10, 11, 98, 99, 100, 255, 256, 65535, 65536];
    let mut p: u64 = 1000;
    while p < u64::MAX / 10 { starts.push(p - 2); starts.push(p - 1); starts.push(p); p *= 10; }
    starts.push(p - 2); starts.push(p - 1); starts.push(p);
    starts.push(u64::MAX - 3);
    starts.push(u64::MAX - 1);   // the third call wraps the counter: ids must go on (from counter 0), not repeat
    // reproducibility: fresh generators over the same namespace issue the same ids, which are the documented
    // derivation from the call number; another namespace gives other ids
    {
        let (a, b) = (UuidGenerator::new(ns), UuidGenerator::new(ns));
        let other = UuidGenerator::new(uuid::Uuid::parse_str("6ba7b811-9dad-11d1-80b4-00c04fd430c8").unwrap());
        for c in 0..300u64 {
            let (x, y, z) = (a.next(), b.next(), other.next());
            let want = uuid::Uuid::new_v5(&ns, c.to_string().as_bytes());
            if x != y { rep.violation("C14", "UuidGenerator.reproducible_for_same_namespace", format!("call #{c}: two fresh generators over the same namespace returned {x} and {y}")); return Ok(()); }
            // NOT violations of C14 (the property fixes no derivation and says nothing about different namespaces): noted only
            if x != want && c == 0 { eprintln!("uuid_contract: note - ids are no longer v5(namespace, decimal(call number)): call #0 returned {x}, that derivation gives {want}"); }
            if x == z && c == 0 { eprintln!("uuid_contract: note - generators over different namespaces return the same ids"); }
        }
    }
    let mut seen: HashMap<uuid::Uuid, u64> = HashMap::new();
    for s in starts {
        let g: UuidGenerator = serde_json::from_value(serde_json::json!({"namespace": ns, "counter": s})).map_err(|e| format!("cannot position generator: {e}"))?;
        let g2: UuidGenerator = serde_json::from_value(serde_json::json!({"namespace": ns, "counter": s})).map_err(|e| format!("cannot position generator: {e}"))?;
        for k in 0..3u64 {
            let c = s.wrapping_add(k);
            let id = g.next();
            // reproducibility at this counter: a second generator positioned at the same counter returns the same id
            let id2 = g2.next();
            if id != id2 { rep.violation("C14", "UuidGenerator.reproducible_for_same_namespace", format!("counter={c}: two generators over the same namespace at the same counter returned {id} and {id2}")); return Ok(()); }
            if let Some(prev) = seen.insert(id, c) { if prev != c { rep.violation("C14", "UuidGenerator.next.ids_distinct", format!("counter {c} and counter {prev} both produced {id}")); return Ok(()); } }
        }
        let after: serde_json::Value = serde_json::to_value(&g).map_err(|e| e.to_string())?;
        if after.get("counter").and_then(|x| x.as_u64()) != Some(s.wrapping_add(3)) { eprintln!("uuid_contract: note - start={s}: after 3 calls the counter is {:?} (not start + 3; no violation by itself)", after.get("counter")); }
    }
    Ok(())
}
