#!/usr/bin/env python3
"""
extract.py -- mechanical extractor / contract splicer for the Verus units.

A *template* (contracts/**/*.rs.tmpl) is Verus text (spec functions, shims, lemmas) interleaved
with directives.  Executable Rust of the code under verification never appears in a template: it
is copied out of /repo's working tree on every run by the directives below, and only the rewrite
rules R1..R7 of DESIGN.md section 3 are applied to it.  Every rule application is counted and
reported, every extracted function text is hashed.

Directives (each starts a line with //@):

  //@include <path relative to the including file>
  //@item file=<repo path> kind=<enum|struct|const> name=<Name> [derive="A, B"] [attr="#[...]"]
  //@  sub "<old>" => "<new>" [xN]            (only directly after an item/fn directive)
  //@fn file=<repo path> impl="<impl header>" name=<fn> [ret=<r>] [selfmut] [rename=<new>]
  //@      [props=C01,C05] [id=<unique id>] [noret]
  //@  sig "<old>" => "<new>"                 rewrite inside the signature (R2: &UuidGenerator)
  //@  sub "<old>" => "<new>" [xN]            rewrite inside the body (R3,R4,R5), N = exact count
  //@contract                                 following lines: requires/ensures/decreases clauses
  //@at entry | loop#N [iter=<name>] | after#N "<text>" | before#N "<text>"
  //@end

Labels: a sidecar line may end in  // [C01,C02:name]  -- the clause that starts on that line is
the labelled obligation `name` serving those properties (no "Cxx:" prefix => the props of the fn).
"""
import hashlib
import json
import os
import re
import sys

REPO = os.environ.get("VERIF_REPO", "/repo")


class ExtractError(Exception):
    """Lost anchor / malformed template: always INCONCLUSIVE (exit 2), never a violation."""


# ----------------------------------------------------------------------------------------------
# lexing helpers
# ----------------------------------------------------------------------------------------------
def lex_spans(src):
    """(kind,start,end) for comments / strings / char literals (lifetimes are left alone)."""
    i = 0
    n = len(src)
    spans = []
    while i < n:
        c = src[i]
        if src.startswith("//", i):
            j = src.find("\n", i)
            j = n if j < 0 else j
            spans.append(("c", i, j))
            i = j
        elif src.startswith("/*", i):
            d = 1
            j = i + 2
            while j < n and d > 0:
                if src.startswith("/*", j):
                    d += 1
                    j += 2
                elif src.startswith("*/", j):
                    d -= 1
                    j += 2
                else:
                    j += 1
            spans.append(("c", i, j))
            i = j
        elif c == '"':
            j = i + 1
            while j < n and src[j] != '"':
                j += 2 if src[j] == "\\" else 1
            spans.append(("s", i, j + 1))
            i = j + 1
        elif c == "r" and re.match(r'r#*"', src[i:i + 8]) and (i == 0 or not (src[i - 1].isalnum() or src[i - 1] == "_")):
            m = re.match(r'r(#*)"', src[i:])
            h = m.group(1)
            end = src.find('"' + h, i + len(m.group(0)))
            if end < 0:
                end = n - 1 - len(h)
            spans.append(("s", i, end + 1 + len(h)))
            i = end + 1 + len(h)
        elif c == "'":
            m = re.match(r"'(\\.[^']*|[^'\\])'", src[i:i + 12])
            if m:
                spans.append(("s", i, i + len(m.group(0))))
                i += len(m.group(0))
            else:
                i += 1
        else:
            i += 1
    return spans


def mask(src, keep_strings=False):
    b = list(src)
    for k, s, e in lex_spans(src):
        if keep_strings and k == "s":
            continue
        for j in range(s, min(e, len(b))):
            if b[j] != "\n":
                b[j] = " "
    return "".join(b)


def match_brace(m, i, open_c="{", close_c="}"):
    """m masked text, m[i]==open_c; returns index after the matching close."""
    assert m[i] == open_c, (m[i - 10:i + 10], open_c)
    d = 0
    for j in range(i, len(m)):
        if m[j] == open_c:
            d += 1
        elif m[j] == close_c:
            d -= 1
            if d == 0:
                return j + 1
    raise ExtractError("unbalanced %s in source" % open_c)


def norm_ws(s):
    return re.sub(r"\s+", " ", s).strip()


class Source:
    _cache = {}

    def __init__(self, relpath):
        self.rel = relpath
        self.path = os.path.join(REPO, relpath)
        try:
            self.text = open(self.path, encoding="utf-8").read()
        except OSError as e:
            raise ExtractError("cannot read %s: %s" % (self.path, e))
        self.mask = mask(self.text)
        self.line_starts = [0]
        for i, ch in enumerate(self.text):
            if ch == "\n":
                self.line_starts.append(i + 1)

    @classmethod
    def get(cls, rel):
        if rel not in cls._cache:
            cls._cache[rel] = Source(rel)
        return cls._cache[rel]

    def line_of(self, off):
        import bisect
        return bisect.bisect_right(self.line_starts, off)

    def toplevel(self):
        """yield (offset) of every position at brace depth 0 where an item keyword starts."""
        m = self.mask
        depth = 0
        i = 0
        n = len(m)
        out = []
        while i < n:
            ch = m[i]
            if ch == "{":
                depth += 1
            elif ch == "}":
                depth -= 1
            elif depth == 0 and (i == 0 or not (m[i - 1].isalnum() or m[i - 1] == "_")):
                mm = re.match(r"(impl|fn|enum|struct|const|mod)\b", m[i:i + 8])
                if mm:
                    out.append((mm.group(1), i))
                    i += len(mm.group(1))
                    continue
            i += 1
        return out

    def impl_blocks(self, header):
        want = norm_ws(header)
        res = []
        seen = []
        for kind, off in self.toplevel():
            if kind != "impl":
                continue
            b = self.mask.find("{", off)
            hdr = norm_ws(self.text[off:b])
            seen.append(hdr)
            if hdr == want:
                res.append((b, match_brace(self.mask, b)))
        if not res:
            raise ExtractError("lost anchor: no `%s` block in %s (have: %s)" % (want, self.rel, "; ".join(seen)))
        return res

    def find_fn(self, header, name):
        """returns (sig_start, body_open, body_end) offsets of fn `name` directly inside an impl `header`
        (header == '' => free function at top level)."""
        hits = []
        if header:
            blocks = self.impl_blocks(header)
        else:
            blocks = [(-1, len(self.text))]
        for (b, e) in blocks:
            # scan members at depth 1 of this block
            depth = 0
            i = b if b >= 0 else 0
            base = 1 if b >= 0 else 0
            m = self.mask
            while i < e:
                ch = m[i]
                if ch == "{":
                    depth += 1
                elif ch == "}":
                    depth -= 1
                elif depth == base and ch == "f" and re.match(r"fn\s+" + re.escape(name) + r"\b", m[i:i + len(name) + 12]) \
                        and not (m[i - 1].isalnum() or m[i - 1] == "_"):
                    # include a preceding `pub` / `pub(crate)`
                    s = i
                    pm = re.search(r"(pub(\s*\([^)]*\))?\s+)$", m[max(0, i - 20):i])
                    if pm:
                        s = i - len(pm.group(1))
                    bo = m.find("{", i)
                    hits.append((s, bo, match_brace(m, bo)))
                    i = bo
                    continue
                i += 1
        if len(hits) != 1:
            raise ExtractError("lost anchor: fn %s in `%s` of %s found %d times" % (name, header, self.rel, len(hits)))
        return hits[0]

    def find_item(self, kind, name):
        hits = []
        for k, off in self.toplevel():
            if k == kind and re.match(kind + r"\s+" + re.escape(name) + r"\b", self.mask[off:off + len(name) + 12]):
                hits.append(off)
        if len(hits) != 1:
            raise ExtractError("lost anchor: %s %s in %s found %d times" % (kind, name, self.rel, len(hits)))
        off = hits[0]
        m = self.mask
        if kind == "const":
            end = m.find(";", off) + 1
        else:
            # struct may be tuple/unit struct
            b = m.find("{", off)
            semi = m.find(";", off)
            if semi >= 0 and (b < 0 or semi < b):
                end = semi + 1
            else:
                end = match_brace(m, b)
        # walk back over `pub`, attributes and doc comments directly above
        s = off
        pm = re.search(r"(pub(\s*\([^)]*\))?\s+)$", m[max(0, off - 20):off])
        if pm:
            s = off - len(pm.group(1))
        # preceding attribute / doc lines
        ls = self.text.rfind("\n", 0, s) + 1
        while ls > 0:
            pls = self.text.rfind("\n", 0, ls - 1) + 1
            line = self.text[pls:ls].strip()
            if line.startswith("#[") or line.startswith("///") or line.endswith(")]") and not line.endswith(";"):
                ls = pls
            else:
                break
        derive = None
        dm = re.search(r"#\[derive\(([^)]*)\)\]", self.text[ls:s])
        if dm:
            derive = norm_ws(dm.group(1))
        return s, end, derive


# ----------------------------------------------------------------------------------------------
# R1: strip doc comments and attributes
# ----------------------------------------------------------------------------------------------
def strip_docs_attrs(text, counts):
    m = mask(text)
    out = []
    i = 0
    n = len(text)
    while i < n:
        if text.startswith("///", i) or text.startswith("//!", i):
            j = text.find("\n", i)
            j = n if j < 0 else j
            counts["R1.doc"] = counts.get("R1.doc", 0) + 1
            i = j
            continue
        if m.startswith("#[", i) or m.startswith("#![", i):
            b = m.find("[", i)
            j = match_brace(m, b, "[", "]")
            counts["R1.attr"] = counts.get("R1.attr", 0) + 1
            i = j
            continue
        out.append(text[i])
        i += 1
    res = "".join(out)
    # drop lines that became blank
    res = "\n".join(l for l in res.split("\n") if l.strip() != "" or False)
    return res


# ----------------------------------------------------------------------------------------------
# template processing
# ----------------------------------------------------------------------------------------------
ARG_RE = re.compile(r'(\w+)=("([^"]*)"|\S+)')
SUB_RE = re.compile(r'^\s*(sig|sub|macro)\s+"((?:[^"\\]|\\.)*)"\s*=>\s*"((?:[^"\\]|\\.)*)"\s*(?:x(\d+|\*))?\s*$')
LABEL_RE = re.compile(r"//\s*\[([^\]]+)\]\s*$")
SIDE_OK = re.compile(r"^\s*(requires|ensures|decreases|invariant|invariant_except_break|proof\s*\{|assert\b|assert\(|let ghost|broadcast use|recommends|no_unwind|opens_invariants|//|$)")


def parse_args(s):
    d = {}
    flags = []
    rest = s
    for m in ARG_RE.finditer(s):
        d[m.group(1)] = m.group(3) if m.group(3) is not None else m.group(2)
    rest = ARG_RE.sub("", s)
    flags = rest.split()
    return d, flags


def unesc(s):
    return s.replace('\\"', '"').replace("\\n", "\n").replace("\\\\", "\\")


class Unit:
    def __init__(self, template_path):
        self.template = template_path
        self.lines = []          # (text, src) ; src = None | "file:line" | "sidecar:<tmpl>:<line>"
        self.functions = []      # dicts
        self.items = []
        self.counts = {}
        self.labels = {}         # label -> dict(line, props, fn)
        self.cur_fn = None
        self.lenient = False     # lenient: sidecar blocks whose body anchor is lost are dropped instead of aborting
        self.dropped = []           # sidecar blocks (proof hints / loop invariants) whose anchor is lost
        self.stub = set()           # function ids emitted as external_body stubs (contract assumed, body not verified)
        self.stubbed = []
        self.dropped_rewrites = []  # rewrite rules whose pattern no longer occurs
        self.dropped_shims = []     # functions in which a dropped rewrite left an unspecified remnant behind
        self.unannotated_closures = []
        self.unannotated = []       # functions whose body has more loops than the sidecar annotates

    def emit(self, text, src=None):
        for l in text.split("\n"):
            self.lines.append((l, src))

    # ------------------------------------------------------------------
    def process_file(self, path):
        try:
            tl = open(path, encoding="utf-8").read().split("\n")
        except OSError as e:
            raise ExtractError("cannot read template %s: %s" % (path, e))
        i = 0
        rel = os.path.relpath(path, os.path.dirname(os.path.abspath(__file__)) + "/..")
        while i < len(tl):
            line = tl[i]
            st = line.strip()
            if st.startswith("//@include"):
                inc = st.split(None, 1)[1].strip()
                self.process_file(os.path.join(os.path.dirname(path), inc))
                i += 1
            elif st.startswith("//@item"):
                args, flags = parse_args(st[len("//@item"):])
                subs = []
                i += 1
                while i < len(tl) and tl[i].strip().startswith("//@ "):
                    mm = SUB_RE.match(tl[i].strip()[3:])
                    if not mm:
                        raise ExtractError("%s:%d bad sub line" % (rel, i + 1))
                    subs.append((mm.group(1), unesc(mm.group(2)), unesc(mm.group(3)), (mm.group(4) if mm.group(4) == "*" else int(mm.group(4))) if mm.group(4) else None))
                    i += 1
                self.do_item(args, subs, "%s:%d" % (rel, i))
            elif st.startswith("//@implconsts"):
                args, flags = parse_args(st[len("//@implconsts"):])
                self.do_implconsts(args, "%s:%d" % (rel, i + 1))
                i += 1
            elif st.startswith("//@fn"):
                args, flags = parse_args(st[len("//@fn"):])
                start = i
                i += 1
                block = []
                while i < len(tl) and tl[i].strip() != "//@end":
                    block.append((i + 1, tl[i]))
                    i += 1
                if i >= len(tl):
                    raise ExtractError("%s:%d //@fn without //@end" % (rel, start + 1))
                i += 1
                self.do_fn(args, flags, block, rel, start + 1)
            elif st.startswith("//@"):
                raise ExtractError("%s:%d unknown directive %s" % (rel, i + 1, st))
            else:
                self.emit(line, "sidecar:%s:%d" % (rel, i + 1))
                self.note_label(line, None)
                i += 1

    def note_label(self, line, fn):
        m = LABEL_RE.search(line)
        if not m:
            return
        raw = m.group(1).strip()
        if ":" in raw:
            ps, name = raw.split(":", 1)
            props = [p.strip() for p in ps.split(",") if p.strip()]
        else:
            name = raw
            props = list(fn["props"]) if fn else []
        name = name.strip()
        if name in self.labels:
            raise ExtractError("duplicate label %s" % name)
        self.labels[name] = {"line": len(self.lines), "props": props, "fn": fn["id"] if fn else None}

    # ------------------------------------------------------------------
    def apply_subs(self, text, subs, which, where):
        for kind, old, new, cnt in subs:
            if kind != which:
                continue
            c = text.count(old)
            if cnt == "*":
                # optional rewrite (call-site renames): applies wherever the pattern occurs, possibly nowhere
                if c:
                    text = text.replace(old, new)
                    key = "sub*:%s" % old
                    self.counts[key] = self.counts.get(key, 0) + c
                continue
            if (c == 0 or (cnt is not None and c != cnt)) and getattr(self, "lenient", False) and c == 0:
                # does a remnant of the construct the rewrite used to eliminate survive in the changed text?  (a call the
                # rewrite replaced by a specified shim / an annotated form: `.map(`, `.collect(`, `sort_by_key(`, `format!(` ...)
                # Then the verbatim code calls something that has no specification here, and failures in this function
                # say nothing about the code: they are UNDECIDED.  If nothing of it survives (the body was rewritten
                # altogether), the verbatim code stands on its own and the verdict on it is final.
                calls = lambda t: set(re.findall(r"([A-Za-z_][A-Za-z0-9_]*!?)\s*\(", t))
                remnant = sorted(x for x in (calls(old) - calls(new)) if re.search(r"(?<![A-Za-z0-9_])%s\s*\(" % re.escape(x), text))
                self.dropped_rewrites.append("rewrite \"%s\" in %s no longer applies (%s)" % (old, where,
                    ("its construct survives in another form: %s - unspecified here" % ", ".join(remnant)) if remnant else "the construct it rewrites is gone"))
                if remnant:
                    self.dropped_shims.append(where[len("body of "):] if where.startswith("body of ") else where)
                continue
            if c == 0 or (cnt is not None and c != cnt):
                raise ExtractError("lost anchor: rewrite \"%s\" expected %s occurrence(s) in %s, found %d"
                                   % (old, cnt if cnt is not None else ">=1", where, c))
            text = text.replace(old, new)
            key = "sub:%s" % old
            self.counts[key] = self.counts.get(key, 0) + c
        return text

    def do_item(self, args, subs, where):
        src = Source.get(args["file"])
        s, e, derive = src.find_item(args["kind"], args["name"])
        text = src.text[s:e]
        sha = hashlib.sha256(text.encode()).hexdigest()
        text = strip_docs_attrs(text, self.counts)
        text = self.apply_subs(text, subs, "sub", "%s %s" % (args["kind"], args["name"]))
        head = ""
        if "attr" in args:
            head += unesc(args["attr"]) + "\n"
        if "derive" in args:
            head += "#[derive(%s)]\n" % args["derive"]
            self.counts["R1.derive"] = self.counts.get("R1.derive", 0) + 1
        ln = src.line_of(s)
        self.emit("// @src %s:%d (%s %s, verbatim after R1)" % (args["file"], ln, args["kind"], args["name"]), None)
        self.emit(head.rstrip("\n"), "sidecar:%s" % where) if head else None
        off = 0
        for l in text.split("\n"):
            self.lines.append((l, "%s:%d" % (args["file"], ln)))
        self.items.append({"kind": args["kind"], "name": args["name"], "file": args["file"], "line": ln,
                           "sha256": sha, "source_derive": derive})

    def do_implconsts(self, args, where):
        """copies every associated `const NAME: T = V;` of the named impl blocks (zero or more): code that starts
        to use an impl-level constant stays verifiable"""
        src = Source.get(args["file"])
        try:
            blocks = src.impl_blocks(args["impl"])
        except ExtractError:
            return
        m = src.mask
        for (b, e) in blocks:
            depth = 0
            i = b
            while i < e:
                ch = m[i]
                if ch == "{":
                    depth += 1
                elif ch == "}":
                    depth -= 1
                elif depth == 1 and m.startswith("const ", i) and not (m[i - 1].isalnum() or m[i - 1] == "_"):
                    end = m.find(";", i) + 1
                    text = strip_docs_attrs(src.text[i:end], self.counts)
                    self.emit("// @src %s:%d (associated const, verbatim)" % (args["file"], src.line_of(i)), None)
                    self.emit("    pub " + text if not text.startswith("pub") else "    " + text, "%s:%d" % (args["file"], src.line_of(i)))
                    self.counts["implconst"] = self.counts.get("implconst", 0) + 1
                    i = end
                    continue
                i += 1

    def do_fn(self, args, flags, block, rel, startline):
        src = Source.get(args["file"])
        name = args["name"]
        header = args.get("impl", "")
        s, bo, be = src.find_fn(header, name)
        sig = src.text[s:bo]
        body = src.text[bo:be]
        sha = hashlib.sha256((sig + body).encode()).hexdigest()
        fid = args.get("id", (header + "::" if header else "") + name)
        fn = {"id": fid, "name": name, "impl": header, "file": args["file"],
              "line_start": src.line_of(s), "line_end": src.line_of(be - 1), "sha256": sha,
              "props": [p for p in args.get("props", "").split(",") if p]}
        # parse block
        subs = []
        sections = []   # (anchor, [(lineno,text)])
        cur = None
        for (ln, t) in block:
            st = t.strip()
            if st.startswith("//@ ") or st.startswith("//@\t"):
                mm = SUB_RE.match(st[3:])
                if not mm:
                    raise ExtractError("%s:%d bad sig/sub line: %s" % (rel, ln, st))
                subs.append((mm.group(1), unesc(mm.group(2)), unesc(mm.group(3)), (mm.group(4) if mm.group(4) == "*" else int(mm.group(4))) if mm.group(4) else None))
            elif st.startswith("//@contract"):
                cur = ("contract", [])
                sections.append(cur)
            elif st.startswith("//@at"):
                cur = (st[len("//@at"):].strip(), [])
                sections.append(cur)
            elif st.startswith("//@"):
                raise ExtractError("%s:%d unknown directive in fn block: %s" % (rel, ln, st))
            else:
                if cur is None:
                    if st == "":
                        continue
                    raise ExtractError("%s:%d text before //@contract" % (rel, ln))
                cur[1].append((ln, t))
        # sidecar sanity: first token of each inserted block must be contract/proof syntax
        for anchor, ls in sections:
            first = next((t for (_, t) in ls if t.strip() and not t.strip().startswith("//")), "")
            if not SIDE_OK.match(first):
                raise ExtractError("%s: sidecar block for %s at `%s` starts with executable text: %s" % (rel, fid, anchor, first.strip()))

        # ---- signature (R2, R6)
        sig = strip_docs_attrs(sig, self.counts)
        if "selfmut" in flags:
            if "&self" not in sig:
                raise ExtractError("lost anchor: selfmut on %s but no &self" % fid)
            sig = sig.replace("&self", "&mut self", 1)
            self.counts["R2.selfmut"] = self.counts.get("R2.selfmut", 0) + 1
        sig = self.apply_subs(sig, subs, "sig", "signature of " + fid)
        if "rename" in args:
            fn["gen_name"] = args["rename"]
            sig = re.sub(r"\bfn\s+" + re.escape(name) + r"\b", "fn " + args["rename"], sig, count=1)
            self.counts["R5.rename"] = self.counts.get("R5.rename", 0) + 1
        if "ret" in args:
            mm = re.search(r"->\s*(.+?)\s*$", sig, flags=re.S)
            if not mm:
                raise ExtractError("lost anchor: ret= on %s but no return type" % fid)
            sig = sig[:mm.start()] + "-> (%s: %s)" % (args["ret"], norm_ws(mm.group(1)))
            self.counts["R6.ret"] = self.counts.get("R6.ret", 0) + 1
        sig = sig.rstrip()
        if "vis" in args:
            sig = re.sub(r"^(pub(\s*\([^)]*\))?\s+)?", args["vis"] + " ", sig, count=1)

        if fid in self.stub:
            # the verifier cannot process this body (unsupported construct / type error after a change): keep the
            # contract as an ASSUMED specification so that the other functions can still be checked against it
            self.emit("// @src %s:%d-%d fn %s  STUBBED (body not verified in this run)" % (args["file"], fn["line_start"], fn["line_end"], fid), None)
            self.emit("#[verifier::external_body]", "sidecar:%s:%d" % (rel, startline))
            if "attr" in args and "rlimit" not in args["attr"]:
                self.emit(unesc(args["attr"]), "sidecar:%s:%d" % (rel, startline))
            fn["gen_start"] = len(self.lines) + 1
            for l in sig.split("\n"):
                self.lines.append((l, "%s:%d" % (args["file"], fn["line_start"])))
            for anchor, ls in sections:
                if anchor == "contract":
                    for (ln, t) in ls:
                        self.lines.append((LABEL_RE.sub("", t), "sidecar:%s:%d" % (rel, ln)))
            self.lines.append(("{ unimplemented!() }", "sidecar:%s:%d" % (rel, startline)))
            fn["gen_end"] = len(self.lines)
            fn["stubbed"] = True
            self.stubbed.append(fid)
            self.functions.append(fn)
            return
        # ---- body insertions
        bm = mask(body)
        inserts = []    # (offset, order, [(lineno,text)], anchor)
        for idx, (anchor, ls) in enumerate(sections):
            if anchor == "contract":
                continue
            am, aflags = anchor, []
            if anchor == "entry":
                inserts.append((1, idx, ls, anchor, None))
                continue
            mm = re.match(r'(loop|after|before)#(\d+)\s*(.*)$', anchor)
            if not mm:
                raise ExtractError("%s: bad anchor `%s` for %s" % (rel, anchor, fid))
            kind, nth, rest = mm.group(1), int(mm.group(2)), mm.group(3).strip()
            if kind == "loop":
                occ = [x for x in re.finditer(r"\b(while|loop|for)\b", bm)]
                if len(occ) < nth:
                    if getattr(self, "lenient", False):
                        self.dropped.append("%s: loop#%d (invariants/decreases dropped)" % (fid, nth))
                        continue
                    raise ExtractError("lost anchor: %s has %d loops, wanted #%d" % (fid, len(occ), nth))
                o = occ[nth - 1]
                # opening brace of the loop body: first `{` at paren depth 0 after the keyword
                j = o.end()
                pd = 0
                while j < len(bm):
                    if bm[j] in "([":
                        pd += 1
                    elif bm[j] in ")]":
                        pd -= 1
                    elif bm[j] == "{" and pd == 0:
                        break
                    j += 1
                it = None
                im = re.match(r"iter=(\w+)", rest)
                if im:
                    if o.group(1) != "for":
                        raise ExtractError("iter= on a non-for loop in %s" % fid)
                    it = (o.start(), o.end(), im.group(1))
                inserts.append((j, idx, ls, anchor, it))
            else:
                tm = re.match(r'"((?:[^"\\]|\\.)*)"$', rest)
                if not tm:
                    raise ExtractError("%s: anchor `%s` needs a quoted text" % (rel, anchor))
                needle = unesc(tm.group(1))
                occ = []
                p = body.find(needle)
                while p >= 0:
                    if bm[p] != " " or body[p] == " ":
                        occ.append(p)
                    p = body.find(needle, p + 1)
                if len(occ) < nth:
                    if getattr(self, "lenient", False):
                        self.dropped.append("%s: %s#%d \"%s\" (proof hint dropped)" % (fid, kind, nth, needle))
                        continue
                    raise ExtractError("lost anchor: `%s` occurs %d times in %s, wanted #%d" % (needle, len(occ), fid, nth))
                p = occ[nth - 1]
                if kind == "before":
                    ls_off = body.rfind("\n", 0, p) + 1
                    inserts.append((ls_off, idx, ls, anchor, None))
                else:
                    j = p + len(needle)
                    d = 0
                    # the needle may itself open parens: count from its start
                    j = p
                    while j < len(bm):
                        ch = bm[j]
                        if ch in "([{":
                            d += 1
                        elif ch in ")]}":
                            d -= 1
                            if d < 0:
                                raise ExtractError("anchor after `%s` in %s: statement has no terminating `;`" % (needle, fid))
                            if d == 0 and ch == "}" and j >= p + len(needle) - 1:
                                # a block statement (if/while/match) ends here
                                nxt = bm[j + 1:j + 40].lstrip()
                                if not (nxt.startswith("else") or nxt.startswith(";") or nxt.startswith(".") or nxt.startswith("?")):
                                    j += 1
                                    break
                        elif ch == ";" and d == 0 and j >= p + len(needle) - 1:
                            j += 1
                            break
                        j += 1
                    inserts.append((j, idx, ls, anchor, None))
        n_loops = len(re.findall(r"\b(while|loop|for)\b", bm))
        n_annot = len([1 for (a, _) in sections if a.startswith("loop#")])
        if n_loops > n_annot:
            # a loop without invariant makes everything after it unprovable: failures in this fn are UNDECIDED
            self.unannotated.append("%s: %d loop(s) in the body, %d annotated" % (fid, n_loops, n_annot))
        inserts.sort(key=lambda x: (x[0], x[1]))

        # ---- assemble body as (text, srcline) pieces
        pieces = []   # (text, kind) kind='src' with offset or 'side'
        pos = 0
        body_off = bo
        iter_rewrites = [x[4] for x in inserts if x[4]]

        def src_piece(a, b):
            return ("src", a, b)
        for (off, idx, ls, anchor, it) in inserts:
            if off > pos:
                pieces.append(src_piece(pos, off))
                pos = off
            pieces.append(("side", ls, anchor))
        pieces.append(src_piece(pos, len(body)))

        # ---- emit
        self.emit("// @src %s:%d-%d fn %s  sha256=%s" % (args["file"], fn["line_start"], fn["line_end"], fid, sha[:16]), None)
        if "attr" in args:
            self.emit(unesc(args["attr"]), "sidecar:%s:%d" % (rel, startline))
            fn["attr"] = unesc(args["attr"])
        fn["gen_start"] = len(self.lines) + 1
        self.cur_fn = fn
        for l in sig.split("\n"):
            self.lines.append((l, "%s:%d" % (args["file"], fn["line_start"])))
        for anchor, ls in sections:
            if anchor == "contract":
                for (ln, t) in ls:
                    self.lines.append((t, "sidecar:%s:%d" % (rel, ln)))
                    self.note_label(t, fn)
        # body pieces: build text with line tracking
        cur_line_buf = ""
        cur_src = None

        def flush():
            nonlocal cur_line_buf, cur_src
            self.lines.append((cur_line_buf, cur_src))
            cur_line_buf = ""
            cur_src = None
        for pc in pieces:
            if pc[0] == "src":
                a, b = pc[1], pc[2]
                seg = body[a:b]
                # R6 iter rewrite: `for PAT in EXPR` -> `for PAT in it: EXPR`
                for (ks, ke, itname) in iter_rewrites:
                    if a <= ks < b:
                        rel_s = ks - a
                        segm = bm[a:b]
                        inm = re.search(r"\bin\b", segm[rel_s:])
                        if not inm:
                            raise ExtractError("lost anchor: for-loop without `in` in %s" % fid)
                        p_in = rel_s + inm.end()
                        seg = seg[:p_in] + " " + itname + ":" + seg[p_in:]
                        self.counts["R6.iter"] = self.counts.get("R6.iter", 0) + 1
                # line tracking
                line_no = src.line_of(body_off + a)
                parts = seg.split("\n")
                for k, part in enumerate(parts):
                    if k > 0:
                        flush()
                        line_no += 1
                    if part:
                        cur_line_buf += part
                        if part.strip():
                            cur_src = "%s:%d" % (args["file"], line_no)
            else:
                ls, anchor = pc[1], pc[2]
                if cur_line_buf.strip() or cur_src:
                    flush()
                else:
                    cur_line_buf = ""
                for (ln, t) in ls:
                    self.lines.append((t, "sidecar:%s:%d" % (rel, ln)))
                    self.note_label(t, fn)
                self.counts["R6.insert"] = self.counts.get("R6.insert", 0) + 1
        flush()
        fn["gen_end"] = len(self.lines)
        # body subs + R1 are applied on the emitted source lines of this fn (line structure kept)
        lo, hi = fn["gen_start"] - 1, fn["gen_end"]
        srcidx = [k for k in range(lo, hi) if self.lines[k][1] and not self.lines[k][1].startswith("sidecar:")]
        joined = "\n".join(self.lines[k][0] for k in srcidx)
        # strip doc comments/attrs inside body without changing the number of lines
        jm = mask(joined)
        out = list(joined)
        # R1.hook: a statement guarded by #[cfg(pricelevel_verif)] is verification instrumentation, not library code
        for hm in re.finditer(r"#\[cfg\(pricelevel_verif\)\]", jm):
            e = jm.find(";", hm.end())
            if e < 0:
                raise ExtractError("hook attribute without statement in %s" % fid)
            for q in range(hm.start(), e + 1):
                if out[q] != "\n":
                    out[q] = " "
            self.counts["R1.hook"] = self.counts.get("R1.hook", 0) + 1
        joined = "".join(out)
        jm = mask(joined)
        out = list(joined)
        # R7.log: logging macro statements (tracing / log) carry no library state: dropped, counted
        for lm in re.finditer(r"(?<![\w:])(?:tracing::|log::)?(?:trace|debug|info|warn|error)!\s*\(", jm):
            o = jm.find("(", lm.start())
            e2 = match_brace(jm, o, "(", ")")
            k = e2
            while k < len(jm) and jm[k] in " \t":
                k += 1
            if k < len(jm) and jm[k] == ";":
                e2 = k + 1
            for q in range(lm.start(), e2):
                if out[q] != "\n":
                    out[q] = " "
            self.counts["R7.log"] = self.counts.get("R7.log", 0) + 1
        joined = "".join(out)
        jm = mask(joined)
        out = list(joined)
        i = 0
        while i < len(joined):
            if jm.startswith("#[", i):
                j = match_brace(jm, i + 1, "[", "]")
                for q in range(i, j):
                    if out[q] != "\n":
                        out[q] = " "
                self.counts["R1.attr"] = self.counts.get("R1.attr", 0) + 1
                i = j
            else:
                i += 1
        joined = "".join(out)
        # R7 macro rewrite: `name!( ...balanced... )` -> replacement, newlines kept so line numbers stay aligned
        for kind, old_m, new_m, cnt in [x for x in subs if x[0] == "macro"]:
            jm = mask(joined)
            outp = []
            pos = 0
            hits = 0
            while True:
                k = jm.find(old_m + "(", pos)
                if k < 0:
                    break
                e = match_brace(jm, k + len(old_m), "(", ")")
                outp.append(joined[pos:k])
                outp.append(new_m + "\n" * joined[k:e].count("\n"))
                pos = e
                hits += 1
            outp.append(joined[pos:])
            if hits == 0 or (cnt is not None and hits != cnt):
                raise ExtractError("lost anchor: macro rewrite %s expected %s invocation(s) in %s, found %d" % (old_m, cnt, fid, hits))
            joined = "".join(outp)
            self.counts["macro:%s" % old_m] = self.counts.get("macro:%s" % old_m, 0) + hits
        body_subs = [x for x in subs if x[0] == "sub"]
        padded = []
        for kind, old, new, cnt in body_subs:
            # a rewrite may span lines of the source; the replacement is padded with the same number of line breaks so
            # that every emitted line keeps its source line (diagnostics are mapped back through that table)
            if new.count("\n") > old.count("\n"):
                raise ExtractError("rewrite adds lines: %s" % old)
            padded.append((kind, old, new + "\n" * (old.count("\n") - new.count("\n")), cnt))
        body_subs = padded
        joined = self.apply_subs(joined, body_subs, "sub", "body of " + fid)
        newlines = joined.split("\n")
        assert len(newlines) == len(srcidx)
        for k, t in zip(srcidx, newlines):
            self.lines[k] = (t, self.lines[k][1])
        # closures in the emitted SOURCE lines that carry no `ensures`: what a library function does with such a closure is
        # unknown to the verifier (Option::map, iterator adapters ...), so a failed obligation in this function says
        # nothing about the code - undecided.  (The closures of the unchanged tree are all rewritten / annotated.)
        code = re.sub(r'"(?:[^"\\]|\\.)*"', '""', "\n".join(t.split("//")[0] for t in newlines))
        n_cl = 0
        for m in re.finditer(r"(?<![|&])\|(?!\|)([^|\n]*)\|(?!\|)", code):
            tail = code[m.end():m.end() + 200]
            if "ensures" in tail.split(";")[0]:
                continue
            n_cl += 1
        if n_cl:
            self.unannotated_closures.append("%s: %d closure(s) without a specification" % (fid, n_cl))
        self.functions.append(fn)
        self.cur_fn = None

    # ------------------------------------------------------------------
    def render(self):
        return "\n".join(t for (t, s) in self.lines) + "\n"

    def meta(self):
        return {
            "template": self.template,
            "functions": self.functions,
            "items": self.items,
            "rewrite_counts": self.counts,
            "labels": self.labels,
            "line_src": [s for (t, s) in self.lines],
            "dropped_hints": self.dropped,
            "dropped_rewrites": self.dropped_rewrites,
            "dropped_shims": self.dropped_shims,
            "stubbed": self.stubbed,
            "unannotated_loops": self.unannotated,
            "unannotated_closures": self.unannotated_closures,
        }


def build(template, out_rs, out_meta=None):
    u = Unit(template)
    u.process_file(template)
    os.makedirs(os.path.dirname(os.path.abspath(out_rs)), exist_ok=True)
    with open(out_rs, "w") as f:
        f.write(u.render())
    meta = u.meta()
    if out_meta:
        with open(out_meta, "w") as f:
            json.dump(meta, f, indent=1)
    return meta


if __name__ == "__main__":
    if len(sys.argv) < 3:
        print("usage: extract.py <template> <out.rs> [<out.meta.json>]", file=sys.stderr)
        sys.exit(2)
    try:
        build(sys.argv[1], sys.argv[2], sys.argv[3] if len(sys.argv) > 3 else None)
    except ExtractError as e:
        print("INCONCLUSIVE extract: %s" % e, file=sys.stderr)
        sys.exit(2)
