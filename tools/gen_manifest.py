#!/usr/bin/env python3
"""Regenerates MANIFEST.json from checks.json (kept in sync by hand-run; not used by the checks)."""
import json, os
ROOT=os.path.dirname(os.path.dirname(os.path.abspath(__file__)))
c=json.load(open(os.path.join(ROOT,'checks.json')))
level_text={
 'C01':"Deductive proof (Verus/Z3) on the mechanically extracted real bodies: the representation invariant wf (visible = sum of visible, hidden = sum of hidden, count = number of resting orders, totals fit in 64 bits) is established by every constructor (new, from_snapshot, From<&PriceLevelSnapshot>, TryFrom<PriceLevelData>) and preserved by add_order, match_order and all five arms of update_order, for arbitrary wf pre-states and all 64-bit inputs; counters are modelled as WRAPPING so a wrap shows as a failed clause. Unbounded histories follow by induction over the per-call contracts.",
 'C02':"Deductive proof of match_order's postconditions on the real body: executed + remaining = requested, completion flag, every transaction well-formed (positive quantity, level price, taker, maker was resting, opposite side, id = v5(ns, pre-increment counter)), per-order conservation (nobody over-filled) and exactness of the filled-order list, plus MatchResult::add_transaction's incremental equation.",
 'C03':"Thread-modular deductive proof (CONC world): the real bodies of add_order / match_order / update_order and OrderQueue::{push,pop,remove,find} are verified against interference-tolerant dependency specifications (every shared read arbitrary, only the call's own ledger known); each call returns every credit (net counter change = what it put into minus what it took out of the map) and match_order executes no more than it took and did not put back. The global conservation statement follows by a short paper argument from linearizable single operations.",
 'C04':"Deductive proof over a ghost priority sequence prio(tickets, live ids): pop hands out the head and keeps everybody else's order, push of an id without a stale ticket joins at the back, remove deletes only that id, a same-price amendment keeps its place, match_order executes only against the head. The two clauses the code does not satisfy are committed known findings with replayed witnesses.",
 'C05':"Deductive proof of the full per-order contract of the real generic match_against (all seven variants, all u64 inputs with displayed+hidden <= u64::MAX), clause by clause from the property text; in the thorough tier additionally seven loop-free full-domain Kani harnesses on the compiled crate (complete, and the source of concrete counterexamples).",
 'C06':"Deductive proof of termination: lexicographic decreases (remaining, hidden total, number of resting orders) on the real match_order loop and |tickets| on OrderQueue::pop, plus the exit clauses (quantity remaining only when nothing is displayed; executes at least min(requested, displayed at start)).",
 'C07':"Deductive proof of update_order's five-way postcondition with whole-view frame on the real (recursive) body: cancel/move returns and removes exactly that order, unknown id changes nothing, same-price price update is rejected without effect, same-price amendment returns the resting order with the new display and identical identity fields; read-only calls are pure by &self typing of the extracted file.",
 'C08':"Thread-modular deductive proof of the ticket-coverage ledger on the real OrderQueue: a ticket is never published before its map entry (Verus type invariant, checked after every single shared-memory operation), every call leaves no published entry without ticket, and pop attempts to take the entry of every ticket it pops; composed on paper with C03 and with the sequential drain contracts (C06/C01 from any wf state).",
 'C09':"Deductive proof of the integrity gate only: validate / into_snapshot / from_snapshot_package / from_snapshot_json succeed iff version is supported and the recomputed checksum equals the stored one, and a successful restore yields exactly the packaged content. The checksum itself is an uninterpreted function.",
 'C10':"Deductive proof that every constructor derives the aggregates from the orders it is given (the right-hand sides of the contracts never mention the aggregate fields of the input), that snapshot -> from_snapshot and package round trips preserve price and orders, and that restores of valid packages always succeed.",
 'C11':"Deductive proof that a restored level has the same abstract view (price, orders, derived aggregates) and hands its orders out exactly in the snapshot's listing order; equality of that order with the original queue order is the committed known finding KF-C11.",
 'C12':"Thread-modular deductive proof of a STEP invariant: each call's credit on the visible, hidden and count aggregates is non-negative after every single shared-memory operation (Verus type invariant on PriceLevel, checked at the end of every field-mutating call), so the counter never drops below the sum over resting orders and no reader can observe a wrapped value.",
 'C14':"Deductive proof on the real UuidGenerator::next: the id is v5(namespace, decimal(pre-increment counter)), the counter is advanced by exactly one read-modify-write and never by a plain store; match_order consumes exactly one id per transaction.",
 'C15':"Deductive proof of the statistics contributions on the real bodies: add_order counts one add, each successful cancel/move counts one removal (and nothing else does), match_order adds exactly the sum of its transaction quantities and that sum times the level price; counters are changed by read-modify-write only.",
 'C19':"Deductive proof of the real OrderQueue::{new,push,pop,find,remove,len,is_empty,from_vec,From<Vec>} against the abstract view (map, tickets) and prio: FIFO hand-out, lookup/removal hit exactly the queued orders, len/is_empty exact, construction from a list preserves order. The stale-ticket case is a committed known finding.",
}
checks=[]
for pid in sorted(c['properties']):
    cfg=c['properties'][pid]
    checks.append({
     "property_id":pid,
     "quick_cmd":"./check %s --tier quick"%pid,
     "thorough_cmd":"./check %s --tier thorough"%pid,
     "evidence_file":"/verif/evidence/%s.json"%pid,
     "replay_cmd_template":"./check --replay {path}",
     "engine":"verus-extracted",
     "level_claimed":{"category":"proof","text":level_text[pid],"design_ref":"DESIGN.md section 6 (%s)"%pid},
     "level_note":" | ".join(cfg.get('assumptions',[]))[:4000],
     "technique":"contract-based deductive verification: Verus (Z3) requires/ensures/invariant/decreases" + (" + type invariant as step invariant, interference-tolerant dependency specs (thread-modular)" if 'conc' in cfg['units'] else "") + " on function bodies extracted mechanically from /repo on every run" + ("; Kani/CBMC loop-free full-domain harnesses on the compiled crate as counterexample source" if cfg.get('kani') else ""),
    })
na={
 'C13':"truthfulness of 'not found' under concurrency is a linearizability statement relating one thread's answer to another thread's in-flight state (an order a matcher is holding between pop and re-push is logically in the book but absent from the map); neither a per-call ledger nor a sequential contract can mention it",
 'C16':"text round trips live in Display/FromStr code over str: Verus has no byte-level str reasoning (slicing, split, parse, format!) and Kani did not finish on even a single numeric display->parse round trip in 10 min (DESIGN 9)",
 'C17':"JSON legs run through serde's generic visitor machinery and serde_json; neither verifier can be pointed at it",
 'C18':"panic-freedom of the hand-written scanners is a statement about UTF-8 byte offsets, outside Verus's str model; Kani with 2 symbolic bytes did not complete unwinding core's UTF-8/memchr loops in 15 min, so no bounded stand-in is offered",
}
na={k:v for k,v in na.items() if k not in c['properties']}
m={"version":1,
 "setup_cmd":"./check --setup",
 "hooks":{"guard":"pricelevel_verif","enable":"RUSTFLAGS='--cfg pricelevel_verif' (set by tools/verif.py when it builds /verif/replay against /repo); the only hook is the pause point amend.after_find + module verif_hook, used by the forced-schedule witnesses of C03/C12; Verus works on extracted text (hook statements are dropped, rule R1.hook) and Kani on the public API","baseline_off_cmd":"cd /repo && cargo test --workspace --no-fail-fast --offline","source_commits":["4b13235"],"add_only":True},
 "engines":[
  {"name":"verus-extracted","path":"/verif/tools/extract.py + /verif/contracts + /verif/tools/verif.py","serves_properties":sorted(c['properties']),"kind_free_text":"Verus 0.2026.09.13 on function bodies extracted from /repo's working tree on every run (rewrite rules R1-R7 counted), sidecar contracts spliced in; SEQ world (functional shims) and CONC world (interference-tolerant shims)"},
  {"name":"kani-real-crate","path":"/verif/kani","serves_properties":["C05"],"kind_free_text":"Kani 0.68 loop-free full-domain harnesses on the unmodified crate (path dependency on /repo); counterexamples via concrete playback"},
  {"name":"replay","path":"/verif/replay","serves_properties":sorted(c['properties']),"kind_free_text":"executes a counterexample / witness history / forced schedule on the real library and evaluates the executable form of the contracts; never passes a property"}],
 "checks":checks,
 "notes":"Exit codes of ./check: 0 held (KNOWN-FINDING lines possible), 1 VIOLATION, 2 INCONCLUSIVE (lost anchor, unsupported construct, resource limit: never an alarm). Fixes committed to /repo: c4958dc (match_against partial fill of TrailingStop/Pegged/MarketToLimit), 439eb8f (match_order spins on zero-display orders), 16776a7 (UpdateQuantity lookup/remove race); see known_findings.json.",
 "not_applicable":[{"property_id":k,"reason":v} for k,v in sorted(na.items())]}
json.dump(m,open(os.path.join(ROOT,'MANIFEST.json'),'w'),indent=1)
print("checks:",len(checks),"not_applicable:",len(na))
