#!/bin/bash
# usage: tools/make_dev_copy.sh <name>   -> scratch worktree /tmp/<name>repo of /repo's HEAD and scratch copy /tmp/<name>verif of /verif
# (committed and uncommitted files, without .work / .git), with every reference to /repo redirected.  Remove with:
#   git -C /repo worktree remove --force /tmp/<name>repo; rm -rf /tmp/<name>verif
n=$1; [ -n "$n" ] || exit 2
git -C /repo worktree add -q --detach /tmp/${n}repo HEAD || exit 2
rsync -a --exclude .work --exclude .git /verif/ /tmp/${n}verif/
cd /tmp/${n}verif || exit 2
sed -i "s|path = \"/repo\"|path = \"/tmp/${n}repo\"|" replay/Cargo.toml kani/Cargo.toml
sed -i "s|\"/repo/Cargo.lock\"|\"/tmp/${n}repo/Cargo.lock\"|g" tools/verif.py
sed -i "s|repo=\"/repo\"|repo=\"/tmp/${n}repo\"|g" tools/purity.py
mkdir -p .work/gen; cp /verif/.work/gen/*.meta.json .work/gen/ 2>/dev/null
echo "VERIF_REPO=/tmp/${n}repo VERIF_HOME=/tmp/${n}verif"
