#!/usr/bin/env python3
"""Writes the self-contained task text for the seeding sub-agents of one round and creates their scratch worktrees
(outside /repo and /verif).  usage: make_seed_prompts.py <round-dir> <steer.json>   (steer.json: {"Cxx": "where ..."})
An agent gets ONLY the text of its property and its own worktree - nothing from /verif."""
import json, subprocess, os, sys
rd, steer = sys.argv[1], json.load(open(sys.argv[2]))
props = {json.loads(l)['id']: json.loads(l) for l in open('/verif/properties.jsonl')}
os.makedirs(rd, exist_ok=True)
for i, st in steer.items():
    wt = '%s/%s' % (rd, i)
    subprocess.run(['git', 'worktree', 'add', '-q', '--detach', wt, 'HEAD'], check=True, cwd='/repo')
    os.makedirs(wt + '-out', exist_ok=True)
    p = props[i]
    prop = "%s — %s\n\n%s\n\nQuantified over: %s" % (p['id'], p['title'], p['statement'], p['quantifier']['text'])
    t = f'''You are helping test a verification tool by producing a realistic *bug-introducing change* to a Rust library. Work ONLY inside the git worktree {wt} (a checkout of the library `pricelevel`: one price level of a limit order book). Do NOT touch /repo or /verif and do not read anything under /verif. There is no network: always pass `--offline` to cargo and set `CARGO_TARGET_DIR={wt}/target` for every cargo command. Do NOT use `git stash` (shared between worktrees).

The property to break (read the sources under {wt}/src to see how the library implements it):

----
{prop}
----

Task: produce ONE small source change (a few lines, under src/, not in test code, and not touching anything guarded by `cfg(pricelevel_verif)`) that makes the library violate this property, while (a) the crate still compiles without new warnings and (b) the ENTIRE existing test suite still passes unchanged:
  cd {wt} && CARGO_TARGET_DIR={wt}/target cargo test --workspace --no-fail-fast --offline
must report every test passing (361 unit tests plus doc tests), with your change applied.

Where: {st}

The violation must lie INSIDE the property's own quantifier ("Quantified over" above): inputs and histories the property excludes (for instance duplicate ids among resting orders, or totals that do not fit in 64 bits, where it says so) do not count, and neither does behaviour that is reachable only through items that cannot be named outside the crate.

The change must be *subtle*: it must need something specific to manifest - a particular multi-step sequence of operations, an unusual input (a specific order type / parameter combination / boundary value), a particular thread interleaving, or two cooperating code sites that each look fine alone. Do NOT produce a change that ordinary simple use would expose at once. It should look like a plausible refactoring / optimisation / oversight by a maintainer, not sabotage. Prefer a change that keeps the code's overall structure (same statements, same control flow) and alters a condition, an operand, an order of two operations or a boundary. The current code may already fall short of some clause of the property; your change must introduce a NEW failure (the demonstration below passes without your change).

Also write a demonstration: a Rust integration test that uses only the public API of `pricelevel`, FAILS with your change and PASSES without it. Create it as {wt}/tests/seed_demo.rs and, only in order to run it, add to Cargo.toml:
  [[test]]
  name = "seed_demo"
  path = "tests/seed_demo.rs"
(The Cargo.toml edit and the demo file are NOT part of the patch.) Run the demo with the change (must fail) and with the src change reverted via `git apply -R` (must pass). For a concurrency property make the demonstration as deterministic as you can (many barrier-released rounds, more threads than cores if that helps) and say how reliably it fails; give any call that might hang a watchdog.

Deliverables, written to {wt}-out/ :
 1. patch.diff   - output of `git diff -- src` (only the source change; must apply with `git apply` to a clean checkout of the same commit)
 2. seed_demo.rs - the demonstration test file
 3. meta.json    - {{"property":"{i}","summary":"what the change does","needs":"what specific condition it needs in order to manifest","files":["src/..."],"ran":["each command you ran and its outcome"]}}
When done: revert the worktree (`git checkout -- src Cargo.toml; rm -f tests/seed_demo.rs`) and delete {wt}/target to save disk. Reply with a short summary (what the change is, what it needs to manifest, the outcomes you observed).
'''
    open('%s/%s-prompt.txt' % (rd, i), 'w').write(t)
vs = open('/verif/tools/verify_seed.sh').read().replace('@RD@', rd)
open(rd + '/verify.sh', 'w').write(vs); os.chmod(rd + '/verify.sh', 0o755)
print(sorted(steer))
