#!/usr/bin/env python3
"""Mechanical mutation sweep (a measure of detection, not a check and not evidence).

For every function under contract (taken from the unit metadata the last run wrote) generate single-token mutants
inside its body - relational / logical / arithmetic operator swaps, fetch_add <-> fetch_sub, min <-> max, small
constant changes, deletion of one `self.…;` statement - apply each to a SCRATCH worktree of /repo, and

  1. build + run the library's own unit tests there; a mutant the 361 tests reject is `killed-by-tests` (not interesting),
     one that does not compile is `stillborn`;
  2. for a mutant the tests accept, run the checks of the properties that function is anchored in, cheapest first,
     until one reports a violation.  Verdicts:  caught (exit 1, by which check / obligation), undecided (only exit 2),
     SURVIVED (every check exit 0) - a survivor is either an equivalent mutant or a miss and is looked at by hand.

usage (scratch copies only; never /repo):
  VERIF_REPO=/tmp/x/repo VERIF_HOME=/tmp/x/verif python3 tools/mutation_sweep.py [--every N] [--max M] [--out file]
"""
import json, os, re, subprocess, sys, time, hashlib

V = os.environ.get("VERIF_HOME", "/verif")
R = os.environ.get("VERIF_REPO")
if not R or os.path.realpath(R) == "/repo":
    sys.exit("refusing: set VERIF_REPO to a scratch worktree of /repo")
args = sys.argv[1:]
def opt(name, default):
    return type(default)(args[args.index(name) + 1]) if name in args else default
EVERY, MAXN, OUT = opt("--every", 1), opt("--max", 10**9), opt("--out", os.path.join(V, ".work", "mutation_sweep.jsonl"))
ONLY = opt("--only", "")

COST = ["C05", "C19", "C14", "C01", "C06", "C02", "C07", "C04", "C15", "C09", "C10", "C11", "C12", "C03", "C08"]

OPS = [  # (regex, replacement, name)
    (r" >= ", " > ", "ge->gt"), (r" > ", " >= ", "gt->ge"), (r" <= ", " < ", "le->lt"), (r" < ", " <= ", "lt->le"),
    (r" == ", " != ", "eq->ne"), (r" != ", " == ", "ne->eq"),
    (r" && ", " || ", "and->or"), (r" \|\| ", " && ", "or->and"),
    (r" \+ ", " - ", "add->sub"), (r" - ", " + ", "sub->add"),
    (r"\bfetch_add\b", "fetch_sub", "fetch_add->fetch_sub"), (r"\bfetch_sub\b", "fetch_add", "fetch_sub->fetch_add"),
    (r"\bmin\(", "max(", "min->max"), (r"\bsaturating_sub\b", "wrapping_sub", "saturating->wrapping"),
    (r"\bsaturating_add\b", "wrapping_add", "saturating->wrapping"),
    (r" > 0\b", " > 1", "gt0->gt1"), (r" == 0\b", " == 1", "eq0->eq1"), (r"\(1,", "(2,", "one->two"),
    (r"\bis_none\(\)", "is_some()", "is_none->is_some"), (r"\bis_some\(\)", "is_none()", "is_some->is_none"),
    (r"\bNone\b", "DELETE-LINE", "-"),  # placeholder, never matches as an op (handled below)
]

def functions():
    seen = {}
    for u in ("ot", "queue", "exec", "level", "conc"):
        p = os.path.join(V, ".work", "gen", u + ".meta.json")
        if not os.path.exists(p):
            continue
        for f in json.load(open(p))["functions"]:
            k = (f["file"], f["line_start"])
            e = seen.setdefault(k, dict(f, props=set()))
            e["props"] |= set(f["props"])
    return sorted(seen.values(), key=lambda f: (f["file"], f["line_start"]))

def mutants(f):
    path = os.path.join(R, f["file"])
    lines = open(path).read().split("\n")
    out = []
    for ln in range(f["line_start"], f["line_end"]):     # 1-based start; skip the signature line itself
        text = lines[ln]
        code = text.split("//")[0]
        if not code.strip() or code.strip().startswith("#["):
            continue
        for rx, rep, name in OPS:
            if rep == "DELETE-LINE":
                continue
            for m in re.finditer(rx, code):
                new = code[:m.start()] + rep + code[m.end():]
                out.append((ln, name, text, new + text[len(code):]))
        if "--idents" in args:
            out_ops = [o for o in out if o[0] == ln]
            for o in out_ops:
                out.remove(o)            # second sweep: identifier swaps and statement swaps only
            for a, b in (("visible", "hidden"), ("hidden", "visible"), ("old_", "new_"), ("new_", "old_"), ("consumed", "hidden_reduced"), ("remaining", "incoming_quantity")):
                for m in re.finditer(r"\b" + a, code):
                    new = code[:m.start()] + b + code[m.end():]
                    out.append((ln, "ident:%s->%s" % (a, b), text, new + text[len(code):]))
            nxt = lines[ln + 1] if ln + 1 < f["line_end"] - 1 else ""
            if code.rstrip().endswith(";") and nxt.split("//")[0].rstrip().endswith(";") and code.count("(") == code.count(")") and nxt.count("(") == nxt.count(")") \
                    and not code.strip().startswith("let ") and not nxt.strip().startswith("let "):
                out.append((ln, "swap-with-next-stmt", text, "SWAP"))
            continue
        s = code.strip()
        if re.match(r"^self\.[a-z_\.]+\(.*\);$", s) or re.match(r"^(result|queue|orders)\.[a-z_]+\(.*\);$", s):
            out.append((ln, "delete-stmt", text, re.sub(r"\S.*$", "", code) + "();"))
    return path, lines, out

def sh(cmd, cwd, timeout, env=None):
    e = dict(os.environ); e.update(env or {})
    try:
        p = subprocess.run(cmd, cwd=cwd, shell=True, capture_output=True, text=True, timeout=timeout, env=e)
        return p.returncode, p.stdout + p.stderr
    except subprocess.TimeoutExpired:
        return 124, "timeout"

def main():
    fs = [f for f in functions() if not ONLY or ONLY in f["id"]]
    allm = []
    for f in fs:
        path, lines, ms = mutants(f)
        for m in ms:
            allm.append((f, path, m))
    picked = allm[::EVERY][:MAXN]
    print("functions %d, candidate mutants %d, running %d" % (len(fs), len(allm), len(picked)), flush=True)
    env = {"CARGO_TARGET_DIR": os.path.join(R, "target"), "CARGO_NET_OFFLINE": "true", "VERIF_EVIDENCE_DIR": os.path.join(V, ".work", "evidence-mut")}
    with open(OUT, "a") as out:
        for (f, path, (ln, name, old, new)) in picked:
            orig = open(path).read()
            lines = orig.split("\n")
            if new == "SWAP":
                lines[ln], lines[ln + 1] = lines[ln + 1], lines[ln]; new = lines[ln] + " <-> " + lines[ln + 1]
            else:
                lines[ln] = new
            open(path, "w").write("\n".join(lines))
            rec = {"fn": f["id"], "file": f["file"], "line": ln + 1, "op": name, "old": old.strip(), "new": new.strip(), "props": sorted(f["props"])}
            t0 = time.time()
            try:
                rc, o = sh("cargo test --offline --lib -q 2>&1 | tail -5", R, 900, env)
                if "error" in o and "test result" not in o:
                    rec["verdict"] = "stillborn"
                elif "test result: ok" not in o:
                    rec["verdict"] = "killed-by-tests"
                else:
                    rec["verdict"] = "SURVIVED"; rec["checks"] = {}
                    for p in [c for c in COST if c in f["props"]]:
                        rc, o = sh("./check %s" % p, V, 1800, env)
                        rec["checks"][p] = rc
                        if rc == 1:
                            ob = [l.strip() for l in o.split("\n") if l.startswith("VIOLATION") or l.startswith("  obligation:")]
                            rec["verdict"] = "caught"; rec["by"] = p; rec["what"] = ob[:2]
                            break
                    if rec["verdict"] == "SURVIVED" and any(v == 2 for v in rec["checks"].values()):
                        rec["verdict"] = "undecided"
            finally:
                open(path, "w").write(orig)
            rec["wall_s"] = round(time.time() - t0, 1)
            out.write(json.dumps(rec) + "\n"); out.flush()
            print(rec["verdict"], rec["fn"], rec["line"], rec["op"], rec.get("by", ""), flush=True)
    sh("./check --setup", V, 900, env)

if __name__ == "__main__":
    main()
