#!/usr/bin/env python3
"""
purity.py -- frame (read-only) check for C07, decided by the Rust borrow checker.

The library's own sources are copied (verbatim, every file) into a scratch crate and compiled against
container shims WITHOUT interior mutability (purity/pshims.rs: mutating operations take &mut self).
The only edits are the import lines of DashMap / SegQueue / std::sync::atomic (counted).  rustc then
reports E0596/E0594 wherever a `&self` method reaches a mutating operation on self's state.
  * inside a known mutator (add_order, match_order, update_order, push, pop, remove, record_*, reset, next)
    the report is EXPECTED - and required: it is the reachability canary of this check;
  * inside any other `&self` method it is the failed obligation  purity.<Type>::<fn>.
Errors on locals the function itself created (`let queue = OrderQueue::new(); queue.push(..)`) are not about
the receiver and are ignored.
"""
import json, os, re, shutil, subprocess, sys, time
ROOT = os.path.dirname(os.path.dirname(os.path.abspath(__file__)))
sys.path.insert(0, os.path.join(ROOT, "tools"))
import extract

MUTATORS = {
    "PriceLevel::add_order", "PriceLevel::match_order", "PriceLevel::update_order",
    "OrderQueue::push", "OrderQueue::pop", "OrderQueue::remove",
    "PriceLevelStatistics::record_order_added", "PriceLevelStatistics::record_order_removed",
    "PriceLevelStatistics::record_execution", "PriceLevelStatistics::reset",
    "UuidGenerator::next",
}
REWRITES = [
    ("use crossbeam::queue::SegQueue;", "use crate::pshims::SegQueue;"),
    ("use dashmap::DashMap;", "use crate::pshims::DashMap;"),
    ("use std::sync::atomic::", "use crate::pshims::atomic::"),
]


def enclosing(path, line):
    """(impl header, fn name, has &self receiver) of the innermost fn enclosing `line` in file `path`."""
    txt = open(path, encoding="utf-8").read()
    m = extract.mask(txt)
    starts = [0]
    for i, ch in enumerate(txt):
        if ch == "\n":
            starts.append(i + 1)
    off = starts[line - 1]
    best = None
    for mm in re.finditer(r"\bfn\s+(\w+)", m):
        b = m.find("{", mm.end())
        semi = m.find(";", mm.end())
        if b < 0 or (0 <= semi < b):
            continue
        e = extract.match_brace(m, b)
        if mm.start() <= off < e and (best is None or mm.start() > best[0]):
            best = (mm.start(), e, mm.group(1), txt[mm.start():b])
    if not best:
        return None
    # enclosing impl
    impl = None
    for im in re.finditer(r"(?m)^impl\b[^{]*\{", m):
        b = m.find("{", im.start())
        e = extract.match_brace(m, b)
        if im.start() <= best[0] < e:
            impl = extract.norm_ws(txt[im.start():b])
    ty = None
    if impl:
        t = re.search(r"\bfor\s+([A-Za-z_]\w*)", impl) or re.search(r"impl(?:<[^>]*>)?\s+([A-Za-z_]\w*)", impl)
        ty = t.group(1) if t else impl
    sig = best[3]
    return {"impl": impl, "type": ty, "fn": best[2], "self_ref": bool(re.search(r"\(\s*&\s*self\b", sig)), "sig": extract.norm_ws(sig)}


MUTATOR_FILES = {"PriceLevel": "src/price_level/level.rs", "OrderQueue": "src/price_level/order_queue.rs",
                 "PriceLevelStatistics": "src/price_level/statistics.rs", "UuidGenerator": "src/utils/uuid.rs"}


def run(work, repo="/repo"):
    """pass A: sources verbatim (direct use of a mutating container operation in a non-mutator);
    pass B: the known mutators additionally declared `&mut self` (R2), so that a `&self` method CALLING a
    library mutator on its own state is reported too."""
    a = run_pass(work, repo, "purity_a", False)
    b = run_pass(work, repo, "purity_b", True)
    a["pass_b"] = {k: b[k] for k in ("wall_s", "tool_errors", "ignored_locals", "mutator_signature_rewrites")}
    seen = set(v["obligation"] + v["repo_source"] for v in a["violations"])
    for v in b["violations"]:
        if v["obligation"] + v["repo_source"] not in seen:
            a["violations"].append(v)
    a["tool_errors"] = a["tool_errors"] + b["tool_errors"]
    a["wall_s"] = round(a["wall_s"] + b["wall_s"], 1)
    a["readonly_methods_checked"] = list_readonly(os.path.join(work, "purity_a"))
    return a


def list_readonly(crate):
    """every `&self` method of the library (all impl blocks, trait impls included) that is not a declared mutator"""
    out = []
    for dp, dn, fn in os.walk(os.path.join(crate, "src")):
        if os.sep + "tests" in dp:
            continue
        for f in sorted(fn):
            if not f.endswith(".rs") or f == "pshims.rs":
                continue
            txt = open(os.path.join(dp, f), encoding="utf-8").read()
            msk = extract.mask(txt)
            cut = msk.find("#[cfg(test)]")
            for im in re.finditer(r"(?m)^impl\b[^{]*\{", msk):
                if 0 <= cut < im.start():
                    continue
                b = msk.find("{", im.start())
                e = extract.match_brace(msk, b)
                hdr = extract.norm_ws(txt[im.start():b])
                t = re.search(r"\bfor\s+([A-Za-z_]\w*)", hdr) or re.search(r"impl(?:<[^>]*>)?\s+([A-Za-z_]\w*)", hdr)
                ty = t.group(1) if t else hdr
                for fm in re.finditer(r"\bfn\s+(\w+)\s*(<[^>]*>)?\s*\(\s*&\s*self\b", msk[b:e]):
                    name = "%s::%s" % (ty, fm.group(1))
                    if name not in MUTATORS:
                        out.append(name)
    return sorted(set(out))


def run_pass(work, repo, name, mut_sigs):
    t0 = time.time()
    crate = os.path.join(work, name)
    if os.path.isdir(os.path.join(crate, "src")):
        shutil.rmtree(os.path.join(crate, "src"))
    os.makedirs(crate, exist_ok=True)
    shutil.copytree(os.path.join(repo, "src"), os.path.join(crate, "src"))
    shutil.copy(os.path.join(ROOT, "purity", "pshims.rs"), os.path.join(crate, "src", "pshims.rs"))
    counts = {}
    for dp, dn, fn in os.walk(os.path.join(crate, "src")):
        for f in fn:
            if not f.endswith(".rs") or f == "pshims.rs":
                continue
            p = os.path.join(dp, f)
            s = open(p, encoding="utf-8").read()
            for a, b in REWRITES:
                c = s.count(a)
                if c:
                    counts[a] = counts.get(a, 0) + c
                    s = s.replace(a, b)
            if f == "lib.rs" and dp.endswith("src"):
                s = s + "\n#[doc(hidden)]\npub mod pshims;\n"
            open(p, "w", encoding="utf-8").write(s)
    sig_rewrites = 0
    if mut_sigs:
        for m in sorted(MUTATORS):
            ty, fn = m.split("::")
            pth = os.path.join(crate, MUTATOR_FILES[ty])
            txt = open(pth, encoding="utf-8").read()
            msk = extract.mask(txt)
            hits = [x for x in re.finditer(r"\bfn\s+" + fn + r"\s*(<[^>]*>)?\s*\(\s*&self\b", msk)]
            # only inside `impl <ty>` blocks
            keep = []
            for h in hits:
                for im in re.finditer(r"(?m)^impl\s+" + ty + r"\s*\{", msk):
                    b = msk.find("{", im.start())
                    if b <= h.start() < extract.match_brace(msk, b):
                        keep.append(h)
            if len(keep) != 1:
                return {"rewrite_counts": counts, "wall_s": 0, "cmd": "", "expected_in_mutators": [], "violations": [], "ignored_locals": 0,
                        "mutator_signature_rewrites": sig_rewrites, "tool_errors": [{"code": None, "message": "lost anchor: mutator %s found %d times" % (m, len(keep))}]}
            h = keep[0]
            k = txt.find("&self", h.start())
            txt = txt[:k] + "&mut self" + txt[k + 5:]
            open(pth, "w", encoding="utf-8").write(txt)
            sig_rewrites += 1
    cargo = open(os.path.join(repo, "Cargo.toml")).read()
    deps = re.search(r"\[dependencies\](.*?)\n\[", cargo, re.S).group(1)
    deps = "\n".join(l for l in deps.split("\n") if not re.match(r"\s*(dashmap|crossbeam)\b", l))
    open(os.path.join(crate, "Cargo.toml"), "w").write(
        '[package]\nname = "%s"\nversion = "0.0.0"\nedition = "2024"\npublish = false\n\n[lib]\npath = "src/lib.rs"\n\n[dependencies]%s\n\n[workspace]\n' % ("pricelevel_" + name, deps))
    if os.path.exists(os.path.join(repo, "Cargo.lock")):
        shutil.copy(os.path.join(repo, "Cargo.lock"), os.path.join(crate, "Cargo.lock"))
    env = dict(os.environ)
    env["CARGO_TARGET_DIR"] = os.path.join(work, "target-purity")
    env["CARGO_NET_OFFLINE"] = "true"
    env.pop("RUSTFLAGS", None)
    p = subprocess.run(["cargo", "check", "--offline", "--lib", "--message-format=json"], cwd=crate, env=env,
                       stdout=subprocess.PIPE, stderr=subprocess.PIPE, text=True, timeout=1200)
    borrow, other = [], []
    for line in p.stdout.split("\n"):
        if not line.startswith("{"):
            continue
        try:
            j = json.loads(line)
        except ValueError:
            continue
        msg = j.get("message") or {}
        if j.get("reason") != "compiler-message" or msg.get("level") != "error":
            continue
        code = (msg.get("code") or {}).get("code")
        spans = [s for s in msg.get("spans", []) if s.get("is_primary")] or msg.get("spans", [])
        if code in ("E0596", "E0594") and spans:
            sp = spans[0]
            path = os.path.join(crate, sp["file_name"])
            enc = enclosing(path, sp["line_start"])
            rel = sp["file_name"]
            borrow.append({"code": code, "message": msg.get("message"), "file": rel, "line": sp["line_start"], "enclosing": enc,
                           "rendered": msg.get("rendered", "")})
        elif not (msg.get("message") or "").startswith("aborting due to") and not (msg.get("message") or "").startswith("could not compile"):
            other.append({"code": code, "message": (msg.get("message") or "")[:300]})
    res = {"rewrite_counts": counts, "mutator_signature_rewrites": sig_rewrites, "wall_s": round(time.time() - t0, 1), "cmd": "cargo check --offline --lib (library sources against purity/pshims.rs)",
           "expected_in_mutators": [], "violations": [], "ignored_locals": 0, "tool_errors": other}
    for b in borrow:
        e = b["enclosing"]
        about_self = "`self" in (b["message"] or "") or "`*self" in (b["message"] or "")
        if not e or not about_self:
            res["ignored_locals"] += 1
            continue
        name = "%s::%s" % (e["type"], e["fn"])
        b["name"] = name
        if name in MUTATORS:
            if name not in res["expected_in_mutators"]:
                res["expected_in_mutators"].append(name)
        else:
            res["violations"].append({"obligation": "purity.%s" % name, "name": name, "message": b["message"], "repo_source": "%s:%d" % (b["file"], b["line"]),
                                      "receiver_is_shared_ref": e["self_ref"], "rendered": b["rendered"]})
    return res


if __name__ == "__main__":
    r = run(os.path.join(ROOT, ".work"))
    print(json.dumps({k: v for k, v in r.items() if k != "violations"}, indent=1))
    for v in r["violations"]:
        print("PURITY-VIOLATION", v["obligation"], v["repo_source"], v["message"])


def public_surface(repo="/repo"):
    """every fn (with its receiver kind) in the non-test impl blocks of the library's stateful types"""
    out = {}
    for rel in ("src/price_level/level.rs", "src/price_level/order_queue.rs", "src/price_level/statistics.rs",
                "src/price_level/snapshot.rs", "src/utils/uuid.rs", "src/execution/match_result.rs", "src/execution/list.rs",
                "src/execution/transaction.rs", "src/orders/order_type.rs"):
        txt = open(os.path.join(repo, rel), encoding="utf-8").read()
        msk = extract.mask(txt)
        cut = msk.find("#[cfg(test)]")
        for im in re.finditer(r"(?m)^impl\b[^{]*\{", msk):
            if 0 <= cut < im.start():
                continue
            b = msk.find("{", im.start())
            e = extract.match_brace(msk, b)
            hdr = extract.norm_ws(txt[im.start():b])
            depth = 0
            i = b
            while i < e:
                ch = msk[i]
                if ch == "{":
                    depth += 1
                elif ch == "}":
                    depth -= 1
                elif depth == 1 and msk.startswith("fn ", i) and not (msk[i - 1].isalnum() or msk[i - 1] == "_"):
                    fm = re.match(r"fn\s+(\w+)", msk[i:])
                    po = msk.find("(", i)
                    pc = extract.match_brace(msk, po, "(", ")")
                    recv = "&mut self" if re.match(r"\(\s*&\s*mut\s+self\b", msk[po:pc]) else ("&self" if re.match(r"\(\s*&\s*self\b", msk[po:pc]) else ("self" if re.match(r"\(\s*(mut\s+)?self\b", msk[po:pc]) else "-"))
                    out["%s :: %s" % (hdr, fm.group(1))] = recv
                    i = pc
                    continue
                i += 1
    return out


STATE_BUILDERS = ["Self {", "PriceLevel {", "OrderQueue {", "AtomicU64::new", "AtomicUsize::new", "DashMap::new", "SegQueue::new",
                  "DashMap::with_capacity", "Default::default()"]


def uncontracted_state_builders(contracted, repo="/repo"):
    """functions of level.rs / order_queue.rs that are NOT under contract (FromStr, Deserialize, Display, ...) must not
    build or patch the representation themselves: they may only go through the contracted constructors and mutators.
    Returns the offenders (fn, pattern)."""
    bad = []
    for rel in ("src/price_level/level.rs", "src/price_level/order_queue.rs"):
        txt = open(os.path.join(repo, rel), encoding="utf-8").read()
        msk = extract.mask(txt)
        cut = msk.find("#[cfg(test)]")
        for im in re.finditer(r"(?m)^impl\b[^{]*\{", msk):
            if 0 <= cut < im.start():
                continue
            b = msk.find("{", im.start())
            e = extract.match_brace(msk, b)
            hdr = extract.norm_ws(txt[im.start():b])
            if not re.search(r"\b(PriceLevel|OrderQueue|OrderQueueVisitor)\b", hdr) or "PriceLevelData" in hdr.split(" for ")[-1]:
                continue
            for fm in re.finditer(r"\bfn\s+(\w+)", msk[b:e]):
                fs = b + fm.start()
                bo = msk.find("{", fs)
                semi = msk.find(";", fs)
                if bo < 0 or (0 <= semi < bo):
                    continue
                be = extract.match_brace(msk, bo)
                key = "%s :: %s" % (hdr, fm.group(1))
                if key in contracted:
                    continue
                body = msk[bo:be]
                for pat in STATE_BUILDERS:
                    if pat in body:
                        bad.append((key, pat))
    return bad
