#!/bin/bash
# VERIF_HOME / VERIF_REPO: run against a scratch copy of /verif and a scratch worktree of /repo (trial runs in parallel)
V=${VERIF_HOME:-/verif}; R=${VERIF_REPO:-/repo}
# Applies every behaviour-preserving refactoring under refactors/ to /repo in turn and runs the checks whose units
# contain the touched code.  Expected: exit 0 or exit 2 for every check, NEVER exit 1 (that would be a false alarm).
cd $V || exit 2
export VERIF_EVIDENCE_DIR=$V/.work/evidence-trial
OUT=${1:-$V/.work/refactor_trials.log}; : > $OUT
declare -A CHK=( [R1]="C01 C02 C03 C04 C06 C12 C15" [R2]="C01 C03 C04 C07 C12 C15" [R3]="C19 C04 C08 C07" [R4]="C05 C01 C02 C07" [R5]="C09 C10 C11 C01" [R6]="C14 C15 C02" [R7]="C01 C03 C07 C10 C12 C15" [R8]="C02 C14 C15" [R9]="C09 C10 C11" [R10]="C19 C10 C11 C07" [R11]="C01 C03 C04 C07 C12 C15" [R12]="C09 C10" [R13]="C01 C02 C03 C04 C06 C08 C12 C15" [R14]="C02 C15" [R15]="C01 C09 C10 C11" [R16]="C05 C01 C02 C07 C19" [R17]="C15 C14 C02" [R18]="C01 C02 C03 C04 C06 C08 C12 C15" [R19]="C01 C03 C04 C07 C12 C15" [R20]="C19 C04 C08 C10 C03" [R21]="C05 C01 C02 C06 C07" [R22]="C01 C04 C09 C10 C15 C19 C03" [R23]="C01 C02 C05 C10 C15 C19 C14" [R24]="C01 C09 C10 C19 C15" [R25]="C01 C04 C05 C07 C10 C19 C12" )
for f in refactors/${2:-}*.diff; do   # optional 2nd argument: prefix filter, e.g. R1[0-3]
  b=$(basename $f .diff); r=${b%%-*}
  if ! git -C $R diff --quiet; then echo "repo dirty" >> $OUT; exit 2; fi
  git -C $R apply $V/$f || { echo "$b APPLY-FAIL" >> $OUT; continue; }
  line="$b"
  for p in ${CHK[$r]}; do
    ./check $p > /tmp/rt.$$ 2>&1; rc=$?
    line="$line $p=$rc"
    if [ $rc -eq 1 ]; then echo "FALSE-ALARM? $b $p: $(grep -E '^VIOLATION|obligation' /tmp/rt.$$ | head -3 | tr '\n' ' ')" >> $OUT; fi
    if [ $rc -eq 2 ]; then echo "  inconclusive $b $p: $(grep -E '^INCONCLUSIVE' /tmp/rt.$$ | cut -c1-220)" >> $OUT; fi
  done
  git -C $R checkout -- .
  echo "$line" >> $OUT
done
rm -f /tmp/rt.$$
./check --setup >/dev/null 2>&1
echo finished >> $OUT
