#!/bin/bash
# Applies every confirmed seeded change to /repo in turn, runs the check of the property it breaks, reverts.
# Expected: exit 1 (VIOLATION) for every seed; exit 0 would be a miss, exit 2 inconclusive.
cd /verif || exit 2
export VERIF_EVIDENCE_DIR=/verif/.work/evidence-trial
OUT=${1:-/verif/.work/seed_regression.log}; : > $OUT
for d in seeded/*/; do
  s=$(basename $d); p=${s%%-*}
  if ! git -C /repo diff --quiet; then echo "repo dirty" >> $OUT; exit 2; fi
  git -C /repo apply /verif/$d/patch.diff || { echo "$s APPLY-FAIL" >> $OUT; continue; }
  r=$(./check $p 2>&1); rc=$?
  git -C /repo checkout -- .
  first=$(echo "$r" | grep -E "^(VIOLATION|INCONCLUSIVE|OK)" | head -1 | cut -c1-160)
  obl=$(echo "$r" | grep -E "^  obligation:" | head -2 | sed 's/  obligation: //' | tr '\n' ';')
  echo "$s exit=$rc | $first | $obl" >> $OUT
done
./check --setup >/dev/null 2>&1
echo finished >> $OUT
