#!/bin/bash
# Applies every confirmed seeded change to the repository in turn, runs the check of the property it breaks, reverts.
# Expected: exit 1 (VIOLATION) for every seed; exit 0 would be a miss, exit 2 inconclusive.
# VERIF_HOME / VERIF_REPO: run against a scratch copy of /verif and a scratch worktree of /repo (shards in parallel);
# usage: seed_regression.sh [logfile] [shard k] [of n]
V=${VERIF_HOME:-/verif}; R=${VERIF_REPO:-/repo}
cd $V || exit 2
export VERIF_EVIDENCE_DIR=$V/.work/evidence-trial
OUT=${1:-$V/.work/seed_regression.log}; K=${2:-0}; N=${3:-1}; : > $OUT
i=0
for d in seeded/*/; do
  i=$((i+1)); if [ $((i % N)) -ne $K ]; then continue; fi
  s=$(basename $d); p=${s%%-*}
  if ! git -C $R diff --quiet; then echo "repo dirty" >> $OUT; exit 2; fi
  git -C $R apply $V/$d/patch.diff || { echo "$s APPLY-FAIL" >> $OUT; continue; }
  r=$(./check $p 2>&1); rc=$?
  git -C $R checkout -- .
  first=$(echo "$r" | grep -E "^(VIOLATION|INCONCLUSIVE|OK)" | head -1 | cut -c1-160)
  obl=$(echo "$r" | grep -E "^  obligation:" | head -2 | sed 's/  obligation: //' | tr '\n' ';')
  echo "$s exit=$rc | $first | $obl" >> $OUT
done
./check --setup >/dev/null 2>&1
echo finished >> $OUT
