#!/bin/bash
# usage: tools/try_patch.sh <patch.diff> <Cxx> [<Cxx> ...]   -- apply to /repo, run checks, always revert
set -u
P="$(readlink -f "$1")"; shift
cd /repo || exit 2
if ! git diff --quiet; then echo "repo dirty, refusing"; exit 2; fi
git apply "$P" || { echo "patch does not apply"; exit 2; }
trap 'git -C /repo checkout -- . ; (cd /verif && ./check --setup >/dev/null 2>&1)' EXIT
cd /verif
export VERIF_EVIDENCE_DIR=/verif/.work/evidence-trial
for p in "$@"; do
  echo "=== $p"; ./check "$p" 2>&1 | grep -E "^(VIOLATION|OK|INCONCLUSIVE|KNOWN|  obligation)" ; echo "exit=${PIPESTATUS[0]}"
done
