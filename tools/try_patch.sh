#!/bin/bash
# VERIF_HOME / VERIF_REPO: run against a scratch copy of /verif and a scratch worktree of /repo (trial runs in parallel)
V=${VERIF_HOME:-/verif}; R=${VERIF_REPO:-/repo}
# usage: tools/try_patch.sh <patch.diff> <Cxx> [<Cxx> ...]   -- apply to /repo, run checks, always revert
set -u
P="$(readlink -f "$1")"; shift
cd $R || exit 2
if ! git diff --quiet; then echo "repo dirty, refusing"; exit 2; fi
git apply "$P" || { echo "patch does not apply"; exit 2; }
trap 'git -C $R checkout -- . ; (cd $V && ./check --setup >/dev/null 2>&1)' EXIT
cd $V
export VERIF_EVIDENCE_DIR=$V/.work/evidence-trial
for p in "$@"; do
  echo "=== $p"; ./check "$p" 2>&1 | grep -E "^(VIOLATION|OK|INCONCLUSIVE|KNOWN|  obligation)" ; echo "exit=${PIPESTATUS[0]}"
done
