#!/usr/bin/env python3
"""
verif.py -- driver for the contract-based checks (see DESIGN.md section 2.1).

  ./check <Cxx> [--tier quick|thorough]     decide one property
  ./check --replay <file>                   re-run a replay file on the real library
  ./check --setup                           pre-build the replay binary (MANIFEST.setup_cmd)
  ./check all [--tier ..]                   every claimed property, sequentially

exit 0  property held on everything explored (KNOWN-FINDING lines possible)
exit 1  VIOLATION property=<id> replay=<path> [... no-failing-input-found]
exit 2  INCONCLUSIVE (lost anchor, unsupported construct, resource limit, tool failure) -- never an alarm
"""
import hashlib, json
import os
import re
import subprocess
import sys
import time

ROOT = os.path.dirname(os.path.dirname(os.path.abspath(__file__)))
sys.path.insert(0, os.path.join(ROOT, "tools"))
import extract  # noqa: E402

WORK = os.path.join(ROOT, ".work")
GEN = os.path.join(WORK, "gen")
REPLAYS = os.path.join(WORK, "replay")
EVID = os.environ.get("VERIF_EVIDENCE_DIR") or os.path.join(ROOT, "evidence")   # trial runs on patched trees write elsewhere
REPLAY_BIN = os.path.join(WORK, "target-replay", "release", "replay")
KANI_TARGET = os.path.join(WORK, "target-kani")
CONFIG = json.load(open(os.path.join(ROOT, "checks.json")))

VERUS_FLAGS = ["--multiple-errors", "50", "--triggers-mode", "silent", "--output-json", "--time", "--error-format=json"]

# messages that denote a failed *obligation* (everything else at level error is a tool problem)
OBLIGATION_MSG = [
    (re.compile(r"^postcondition not satisfied"), "ensures"),
    (re.compile(r"^precondition not satisfied"), "call-requires"),
    (re.compile(r"^requires not satisfied"), "assert"),          # the `requires` of an `assert ... by(..) requires ..` hint
    (re.compile(r"^invariant not satisfied at end of loop body"), "invariant-preserved"),
    (re.compile(r"^invariant not satisfied before loop"), "invariant-established"),
    (re.compile(r"^loop invariant not satisfied"), "invariant"),
    (re.compile(r"^decreases not satisfied"), "decreases"),
    (re.compile(r"^could not prove termination"), "decreases"),
    (re.compile(r"^assertion failed"), "assert"),
    (re.compile(r"^possible arithmetic (underflow/)?overflow"), "overflow"),
    (re.compile(r"^possible division by zero"), "div-zero"),
    (re.compile(r"^possible bit shift"), "overflow"),
    (re.compile(r"^constructed value may fail to meet its declared type invariant"), "type-invariant"),
    (re.compile(r"type invariant"), "type-invariant"),
    (re.compile(r"^unable to prove assertion safely within"), "assert"),
    (re.compile(r"^index out of bounds|^possible index out of bounds"), "bounds"),
    (re.compile(r"^recommendation not met"), "recommends"),
    (re.compile(r"^possible missing case in match|^unreachable"), "reachability"),
]
RLIMIT_MSG = re.compile(r"Resource limit|rlimit", re.I)


class Inconclusive(Exception):
    pass


def sh(cmd, cwd=None, env=None, timeout=None):
    e = dict(os.environ)
    e.setdefault("CARGO_NET_OFFLINE", "true")
    if env:
        e.update(env)
    t0 = time.time()
    try:
        p = subprocess.run(cmd, cwd=cwd, env=e, stdout=subprocess.PIPE, stderr=subprocess.PIPE, text=True, timeout=timeout)
        return p.returncode, p.stdout, p.stderr, time.time() - t0
    except subprocess.TimeoutExpired as ex:
        return 124, ex.stdout or "", (ex.stderr or "") + "\nTIMEOUT", time.time() - t0


# ----------------------------------------------------------------------------------------------
# unit building / verus
# ----------------------------------------------------------------------------------------------
def build_unit(unit, canary=False, lenient=False, stub=None):
    tmpl = os.path.join(ROOT, CONFIG["units"][unit]["template"])
    os.makedirs(GEN, exist_ok=True)
    suffix = "_canary" if canary else ""
    rs = os.path.join(GEN, unit + suffix + ".rs")
    # a fresh Source cache per build: always re-read /repo's working tree
    extract.Source._cache = {}
    u = extract.Unit(tmpl)
    u.canary = canary
    u.lenient = lenient
    u.stub = set(stub or [])
    try:
        u.process_file(tmpl)
    except extract.ExtractError as e:
        raise Inconclusive("extract %s: %s" % (unit, e))
    if canary:
        make_canary(u)
    with open(rs, "w") as f:
        f.write(u.render())
    meta = u.meta()
    with open(os.path.join(GEN, unit + suffix + ".meta.json"), "w") as f:
        json.dump(meta, f, indent=1)
    if not canary and not lenient and not stub:
        top = os.path.join(WORK, "gen")
        tmp = os.path.join(top, ".%s.meta.%d" % (unit, os.getpid()))
        with open(tmp, "w") as f:
            json.dump(meta, f, indent=1)
        os.replace(tmp, os.path.join(top, unit + ".meta.json"))
    # rewrite-rule counts must equal the committed expectation (lost anchor otherwise)
    exp = CONFIG["units"][unit].get("rewrite_counts")
    if exp is not None and not canary and not lenient and not stub:
        got = {k: v for k, v in meta["rewrite_counts"].items() if not k.startswith("sub*:") and k != "R7.log"}   # optional call-site renames / dropped log statements are not anchors
        exp = {k: v for k, v in exp.items() if not k.startswith("sub*:") and k != "R7.log"}
        if got != exp:
            diff = {k: (exp.get(k), got.get(k)) for k in set(exp) | set(got) if exp.get(k) != got.get(k)}
            raise Inconclusive("rewrite-rule application counts of unit %s changed (expected,got): %s" % (unit, diff))
    return rs, meta


def make_canary(u):
    """vacuity guard file: every extracted function is followed by a copy `<name>__canary` whose contract
    additionally ensures `false`.  The originals keep their real contracts (so callers are not made
    vacuous through a callee); each copy must FAIL."""
    fns = sorted(u.functions, key=lambda f: f["gen_start"])
    out = []
    pos = 0
    canaries = []
    for fn in fns:
        lo, hi = fn["gen_start"] - 1, fn["gen_end"]
        # the ORIGINAL is kept as an external_body stub (signature + real contract, body not re-verified here: the main
        # run does that); only the `__canary` copy carries the body
        out.extend(u.lines[pos:lo])
        if not fn.get("stubbed"):
            out.append(("#[verifier::external_body]", "sidecar:canary"))
            body_started = False
            for (t, s_) in u.lines[lo:hi]:
                if not body_started and s_ and not s_.startswith("sidecar:") and t.lstrip().startswith("{"):
                    body_started = True
                    out.append(("{ unimplemented!() }", "sidecar:canary"))
                    continue
                if not body_started:
                    if s_ and s_.startswith("sidecar:") and re.match(r"^\s*#\[verifier::", t):
                        continue
                    out.append((extract.LABEL_RE.sub("", t), s_))
        else:
            out.extend(u.lines[lo:hi])
        pos = hi
        copy = []
        if fn.get("attr"):
            # the copy only has to FAIL to prove `false`: it gets the default resource limit, not the function's own
            a = re.sub(r"#\[verifier::rlimit\(\d+\)\]", "", fn["attr"]).strip()
            copy.append((a if a else "// (default rlimit for the canary copy)", "sidecar:canary"))
        renamed = False
        added = False
        for (t, s) in u.lines[lo:hi]:
            t2 = extract.LABEL_RE.sub("", t)
            if not renamed and s and not s.startswith("sidecar:"):
                t3, n = re.subn(r"\bfn\s+(\w+)", lambda m: "fn %s__canary" % m.group(1), t2, count=1)
                if n:
                    renamed = True
                    t2 = t3
            if not added and s and s.startswith("sidecar:") and re.search(r"^\s*ensures\b", t2):
                t2 = re.sub(r"\bensures\b", "ensures false /*canary*/,", t2, count=1)
                added = True
            copy.append((t2, "sidecar:canary" if (s and s.startswith("sidecar:")) else s))
        if not added:
            # no ensures clause: add one right before the body's opening brace
            for k, (t2, s) in enumerate(copy):
                if s and not s.startswith("sidecar:") and t2.lstrip().startswith("{"):
                    copy.insert(k, ("    ensures false /*canary*/,", "sidecar:canary"))
                    added = True
                    break
        start = len(out) + 1 + (1 if fn.get("attr") else 0)
        out.extend(copy)
        canaries.append({"fn": fn["id"], "gen_start": start, "gen_end": len(out), "ok": renamed and added})
    out.extend(u.lines[pos:])
    u.lines = out
    u.canaries = canaries
    # original function ranges / labels are no longer meaningful in this file
    u.functions = [{"id": c["fn"], "name": c["fn"], "impl": "", "file": "", "line_start": 0, "line_end": 0, "sha256": "",
                    "props": [], "gen_start": c["gen_start"], "gen_end": c["gen_end"], "canary_ok": c["ok"]} for c in canaries]
    u.labels = {}


def run_verus(rs, extra=None):
    flags = list(VERUS_FLAGS)
    if extra and "--multiple-errors" in extra:
        i = flags.index("--multiple-errors")
        del flags[i:i + 2]
    cmd = ["verus", os.path.basename(rs)] + flags + (extra or [])
    rc, out, err, wall = sh(cmd, cwd=os.path.dirname(rs), timeout=900)
    diags = []
    for line in err.split("\n"):
        line = line.strip()
        if line.startswith("{"):
            try:
                diags.append(json.loads(line))
            except ValueError:
                pass
    try:
        j = json.loads(out) if out.strip().startswith("{") else {}
    except ValueError:
        j = {}
    return {"rc": rc, "diags": diags, "json": j, "wall": wall, "stderr": err, "cmd": " ".join(cmd), "rs": rs}


def fn_of_line(meta, line):
    for fn in meta["functions"]:
        if fn["gen_start"] <= line <= fn["gen_end"]:
            return fn
    return None


def classify(res, meta, unit):
    """returns (failures, tool_errors). failure = dict(unit, fn, label, kind, msg, props, src, rendered)."""
    line_label = {}
    for name, lab in meta["labels"].items():
        line_label[lab["line"]] = name
    failures, tool = [], []
    for d in res["diags"]:
        if d.get("level") != "error":
            continue
        msg = d.get("message", "")
        if msg.startswith("aborting due to"):
            continue
        kind = None
        for rx, k in OBLIGATION_MSG:
            if rx.search(msg):
                kind = k
                break
        if kind is None or d.get("code"):
            tool.append(d)
            continue
        spans = d.get("spans", [])
        label = None
        # prefer the span that names the failed clause
        pri = sorted(spans, key=lambda s: (0 if (s.get("label") or "").startswith("failed") else (1 if s.get("is_primary") else 2)))
        for s in pri:
            for ln in range(s["line_start"], s["line_end"] + 1):
                if ln in line_label:
                    label = line_label[ln]
                    break
            if label:
                break
        if label is None and kind == "decreases" and spans:
            # the span is the loop header (or the recursive call); the clause is the next `decreases` line of the sidecar
            gen_lines = open(res["rs"]).read().split("\n") if "rs" in res else []
            l0 = spans[0]["line_start"]
            for ln in range(l0, min(l0 + 80, len(gen_lines) + 1)):
                if ln in line_label and "decreases" in gen_lines[ln - 1]:
                    label = line_label[ln]
                    break
        # the function the obligation belongs to: for call-requires the caller (primary span)
        fn = None
        prim = [s for s in spans if s.get("is_primary")] or spans
        order = prim + [s for s in spans if s not in prim]
        for s in order:
            fn = fn_of_line(meta, s["line_start"])
            if fn:
                break
        if label and meta["labels"][label]["fn"]:
            lf = [f for f in meta["functions"] if f["id"] == meta["labels"][label]["fn"]]
            if kind != "call-requires" and lf:
                fn = lf[0]
        src = None
        for s in order:
            ls = meta["line_src"][s["line_start"] - 1] if s["line_start"] - 1 < len(meta["line_src"]) else None
            if ls and not ls.startswith("sidecar:"):
                src = ls
                break
        if label and kind != "call-requires":
            props = meta["labels"][label]["props"] or (fn["props"] if fn else [])
            name = label
        else:
            props = fn["props"] if fn else []
            where = src
            if not where and pri:
                # the failed clause is sidecar text: name it by its own text (stable under edits of /repo)
                txt = " ".join((t.get("text") or "").strip() for t in (pri[0].get("text") or [])[:2])
                where = "{" + re.sub(r"\s+", " ", re.sub(r"//.*$", "", txt)).strip()[:100] + "}"
            name = "%s.%s@%s" % (fn["id"] if fn else "sidecar", kind, where or ("gen:%d" % (order[0]["line_start"] if order else 0)))
            if label:
                name += "(requires %s)" % label
        failures.append({"unit": unit, "fn": fn["id"] if fn else None, "label": name, "kind": kind, "msg": msg,
                         "props": props, "src": src, "rendered": d.get("rendered", "")})
    return failures, tool


def verify_unit(unit):
    lenient = None
    try:
        rs, meta = build_unit(unit)
    except Inconclusive as e:
        if "lost anchor" not in str(e) and "rewrite-rule application counts" not in str(e):
            raise
        # the code was restructured under a proof hint: drop the hints that lost their anchor and try anyway.
        # Whatever still verifies is proved (hints only help); whatever fails is UNDECIDED, not a violation.
        rs, meta = build_unit(unit, lenient=True)
        lenient = {"reason": str(e), "dropped": meta.get("dropped_hints", []) + ["%s: a dropped rewrite left an unspecified construct behind" % f for f in meta.get("dropped_shims", [])],
                   "dropped_rewrites": meta.get("dropped_rewrites", [])}
    try:
        out = _verify_built(unit, rs, meta)
    except Inconclusive as e:
        # rustc / unsupported-construct errors inside particular functions: stub those functions (their contracts
        # become assumptions for this run) and check the rest; the stubbed functions themselves stay undecided
        bad = getattr(e, "functions", None)
        if not bad:
            raise
        rs, meta = build_unit(unit, lenient=True, stub=bad)
        out = _verify_built(unit, rs, meta)
        out["stubbed"] = {"functions": sorted(bad), "reason": str(e)}
        if lenient is None:
            lenient = {"reason": str(e), "dropped": [], "dropped_rewrites": []}
        lenient["dropped"] = list(lenient["dropped"]) + ["%s: body could not be processed by the verifier" % f for f in sorted(bad)]
    if meta.get("unannotated_loops"):
        if lenient is None:
            lenient = {"reason": "loop(s) without invariant: %s" % "; ".join(meta["unannotated_loops"]), "dropped": [], "dropped_rewrites": []}
        lenient["dropped"] = list(lenient["dropped"]) + list(meta["unannotated_loops"])
    if meta.get("unannotated_closures"):
        if lenient is None:
            lenient = {"reason": "closure(s) without specification: %s" % "; ".join(meta["unannotated_closures"]), "dropped": [], "dropped_rewrites": []}
        lenient["dropped"] = list(lenient["dropped"]) + list(meta["unannotated_closures"])
    out["lenient"] = lenient
    return out


def _verify_built(unit, rs, meta):
    res = run_verus(rs)
    failures, tool = classify(res, meta, unit)
    rl = [t for t in tool if not t.get("code") and RLIMIT_MSG.search(t.get("message") or "")]
    tool = [t for t in tool if t not in rl]
    if tool:
        ex = Inconclusive("verus/rustc error in unit %s (not a failed obligation): %s" %
                          (unit, "; ".join((t.get("message") or "")[:300] for t in tool[:3])))
        fns = set()
        for t in tool:
            hit = None
            for sp in t.get("spans", []):
                f = fn_of_line(meta, sp["line_start"])
                if f:
                    hit = f["id"]
                    break
            if hit is None:
                fns = None       # an error outside any extracted function cannot be isolated
                break
            fns.add(hit)
        ex.functions = fns
        raise ex
    if rl:
        # resource limit: undecided.  Retry once with a 4x limit before giving up.
        res = run_verus(rs, ["--rlimit", "40"])
        failures, tool2 = classify(res, meta, unit)
        rl2 = [t for t in tool2 if not t.get("code") and RLIMIT_MSG.search(t.get("message") or "")]
        hard2 = [t for t in tool2 if t not in rl2]
        if hard2:
            raise Inconclusive("verus/rustc error in unit %s: %s" % (unit, (hard2[0].get("message") or "")[:300]))
        if rl2 and not failures:
            raise Inconclusive("resource limit exceeded in unit %s (%s)" % (unit, (rl2[0].get("message") or "")[:120]))
    vr = res["json"].get("verification-results", {})
    if not vr:
        raise Inconclusive("verus produced no verification results for unit %s: %s" % (unit, res["stderr"][-600:]))
    if vr.get("verified", 0) + vr.get("errors", 0) == 0:
        raise Inconclusive("unit %s generated zero obligations" % unit)
    return {"unit": unit, "rs": rs, "meta": meta, "res": res, "failures": failures}


def canary_unit(unit):
    """vacuity guard: with `ensures false` added to every extracted function, each must FAIL."""
    try:
        rs, meta = build_unit(unit, canary=True)
    except Inconclusive:
        rs, meta = build_unit(unit, canary=True, lenient=True)
    res = run_verus(rs, ["--multiple-errors", "0"])     # one error per copy is enough: the copy only has to fail
    failures, tool = classify(res, meta, unit)
    hard = [t for t in tool if t.get("code") or not RLIMIT_MSG.search(t.get("message") or "")]
    if hard:
        raise Inconclusive("canary of unit %s: tool error %s" % (unit, (hard[0].get("message") or "")[:300]))
    failed_fns = set(f["fn"] for f in failures if f["kind"] == "ensures")
    # a canary copy that exhausts the resource limit did not verify `false` either
    for t in tool:
        for sp in t.get("spans", []):
            fn = fn_of_line(meta, sp["line_start"])
            if fn:
                failed_fns.add(fn["id"])
    vacuous = [fn["id"] for fn in meta["functions"] if fn["id"] not in failed_fns or not fn.get("canary_ok")]
    return {"functions": len(meta["functions"]), "failed_as_expected": len(meta["functions"]) - len(vacuous), "vacuous": vacuous,
            "wall": res["wall"]}


def scan_assumptions(rs):
    txt = open(rs).read()
    m = extract.mask(txt)
    out = {}
    for pat, name in [(r"external_body", "external_body"), (r"assume_specification", "assume_specification"),
                      (r"\bassume\s*\(", "assume("), (r"\badmit\s*\(", "admit("), (r"external_fn_specification", "external_fn_specification"),
                      (r"\buninterp\b", "uninterp spec fn"), (r"#\[verifier::external\b", "verifier::external")]:
        out[name] = len(re.findall(pat, m))
    return out


# ----------------------------------------------------------------------------------------------
# replay / kani
# ----------------------------------------------------------------------------------------------
def ensure_replay_bin():
    lock_src = "/repo/Cargo.lock"
    dst = os.path.join(ROOT, "replay", "Cargo.lock")
    if os.path.exists(lock_src) and not os.path.exists(dst):
        open(dst, "w").write(open(lock_src).read())
    flags = os.environ.get("RUSTFLAGS", "")
    rc, out, err, wall = sh(["cargo", "build", "--release", "--offline"], cwd=os.path.join(ROOT, "replay"),
                            env={"CARGO_TARGET_DIR": os.path.join(WORK, "target-replay"),
                                 "RUSTFLAGS": (flags + " --cfg pricelevel_verif").strip()}, timeout=1200)
    if rc != 0:
        raise Inconclusive("replay crate does not build against /repo: %s" % err[-800:])
    return wall


def run_replay(path, timeout_s=10):
    rc, out, err, wall = sh([REPLAY_BIN, path, str(timeout_s)], timeout=timeout_s + 30)
    lines = [l for l in out.split("\n") if l.startswith("REPLAY-")]
    return rc, lines, err


KANI_INPUTS = {
    # harness -> ordered (name, type) list; mirrors kani/src/lib.rs
    "match_against_standard": ("Standard", ["id:u64", "price:u64", "vis:u64", "side:bool", "ts:u64", "tif_tag:u8", "gtd:u64", "incoming:u64"]),
    "match_against_iceberg": ("IcebergOrder", ["id:u64", "price:u64", "vis:u64", "hid:u64", "side:bool", "ts:u64", "tif_tag:u8", "gtd:u64", "incoming:u64"]),
    "match_against_postonly": ("PostOnly", ["id:u64", "price:u64", "vis:u64", "side:bool", "ts:u64", "tif_tag:u8", "gtd:u64", "incoming:u64"]),
    "match_against_trailingstop": ("TrailingStop", ["id:u64", "price:u64", "vis:u64", "side:bool", "ts:u64", "tif_tag:u8", "gtd:u64", "trail_amount:u64", "last_reference_price:u64", "incoming:u64"]),
    "match_against_pegged": ("PeggedOrder", ["id:u64", "price:u64", "vis:u64", "side:bool", "ts:u64", "tif_tag:u8", "gtd:u64", "reference_price_offset:i64", "peg:u8", "incoming:u64"]),
    "match_against_markettolimit": ("MarketToLimit", ["id:u64", "price:u64", "vis:u64", "side:bool", "ts:u64", "tif_tag:u8", "gtd:u64", "incoming:u64"]),
    "match_against_reserve": ("ReserveOrder", ["id:u64", "price:u64", "vis:u64", "hid:u64", "thr:u64", "has_amt:bool", "amt:u64", "auto:bool", "side:bool", "ts:u64", "tif_tag:u8", "gtd:u64", "incoming:u64"]),
}


def kani_run(harness, playback=True, timeout=1800):
    kd = os.path.join(ROOT, "kani")
    lock = os.path.join(kd, "Cargo.lock")
    if os.path.exists("/repo/Cargo.lock"):
        open(lock, "w").write(open("/repo/Cargo.lock").read())
    cmd = ["cargo", "kani", "--harness", harness]
    if playback:
        cmd += ["-Z", "concrete-playback", "--concrete-playback=print"]
    rc, out, err, wall = sh(cmd, cwd=kd, env={"CARGO_TARGET_DIR": KANI_TARGET}, timeout=timeout)
    text = out + "\n" + err
    status = "SUCCESS" if "VERIFICATION:- SUCCESSFUL" in text else ("FAILED" if "VERIFICATION:- FAILED" in text else "ERROR")
    failed = re.findall(r"Failed Checks: (.*)", text)
    vecs = None
    if status == "FAILED":
        m = re.search(r"let concrete_vals: Vec<Vec<u8>> = vec!\[(.*?)\];", text, re.S)
        if m:
            vecs = [[int(x) for x in v.split(",") if x.strip()] for v in re.findall(r"vec!\[([0-9, ]*)\]", m.group(1))]
    nchecks = re.search(r"\*\* (\d+) of (\d+) failed", text)
    return {"harness": harness, "status": status, "failed_checks": failed, "vecs": vecs, "wall": wall,
            "checks": int(nchecks.group(2)) if nchecks else None, "tail": text[-1500:]}


def decode_match_against(harness, vecs):
    ty, spec = KANI_INPUTS[harness]
    vals = {}
    if len(vecs) != len(spec):
        return None
    for s, v in zip(spec, vecs):
        n, t = s.split(":")
        x = int.from_bytes(bytes(v), "little")
        if t == "i64" and x >= 2 ** 63:
            x -= 2 ** 64
        vals[n] = x
    tif = ["Gtc", "Ioc", "Fok", "Gtd", "Day"][vals["tif_tag"] % 5]
    o = {"type": ty, "id": vals["id"], "price": vals["price"], "vis": vals["vis"], "hid": vals.get("hid", 0),
         "side": "Buy" if vals["side"] else "Sell", "ts": vals["ts"], "tif": tif, "gtd": vals["gtd"]}
    if ty == "ReserveOrder":
        o.update({"threshold": vals["thr"], "amount": vals["amt"] if vals["has_amt"] else None, "auto": bool(vals["auto"])})
    if ty == "TrailingStop":
        o.update({"trail_amount": vals["trail_amount"], "last_reference_price": vals["last_reference_price"]})
    if ty == "PeggedOrder":
        o.update({"reference_price_offset": vals["reference_price_offset"],
                  "reference_price_type": ["BestBid", "BestAsk", "MidPrice", "LastTrade"][vals["peg"] % 4]})
    return {"kind": "match_against", "order": o, "incoming": vals["incoming"]}


# ----------------------------------------------------------------------------------------------
# the check
# ----------------------------------------------------------------------------------------------
def load_known():
    p = os.path.join(ROOT, "known_findings.json")
    if not os.path.exists(p):
        return {"open": [], "fixed": []}
    return json.load(open(p))


def surface_check():
    """the properties quantify over 'every operation': a function added to the stateful types that is not under
    contract makes every claim about histories meaningless -> INCONCLUSIVE (never an alarm)"""
    exp = CONFIG.get("public_surface")
    if not exp:
        return
    import purity as purity_mod
    got = purity_mod.public_surface()
    contracted = set(CONFIG.get("contracted_functions", []))
    if contracted:
        bad = purity_mod.uncontracted_state_builders(contracted)
        if bad:
            raise Inconclusive("function(s) outside the contracts build or patch the level/queue representation themselves: %s" % bad[:4])
    new = sorted(k for k in got if k not in exp)
    changed = sorted(k for k in got if k in exp and exp[k] != got[k])
    if new and not changed and all(got[k] == "&self" for k in new):
        # new `&self` methods are harmless for every property iff they are read-only: let the borrow checker decide
        pr = purity_mod.run(WORK)
        bad = set(v["name"] for v in pr["violations"])
        if not pr["tool_errors"] and not any(k.split(" :: ")[-1] in [b.split("::")[-1] for b in bad] for k in new):
            return
    if new or changed:
        raise Inconclusive("the library's surface changed: function(s) not under contract / not classified: %s%s" %
                           (new[:6], (" receiver changed: %s" % changed[:4]) if changed else ""))


def run_purity(pid, cfg):
    """returns (violations, number of read-only methods checked, coverage dict)"""
    if not cfg.get("purity"):
        return [], 0, None
    import purity as purity_mod
    pr = purity_mod.run(WORK)
    if pr["tool_errors"]:
        raise Inconclusive("purity crate does not type-check against the shims: %s" % "; ".join((t.get("message") or "")[:160] for t in pr["tool_errors"][:3]))
    missing = sorted(purity_mod.MUTATORS - set(pr["expected_in_mutators"]))
    if missing:
        raise Inconclusive("purity canary: the borrow checker reported no mutation inside the known mutators %s" % missing)
    n_ro = len(pr["readonly_methods_checked"])
    pcov = {"checker_cmd": pr["cmd"], "readonly_methods_checked": n_ro, "sample": pr["readonly_methods_checked"][:40],
            "mutators_flagged_as_expected": pr["expected_in_mutators"], "import_rewrites": pr["rewrite_counts"],
            "wall_s": pr["wall_s"], "violations": [v["obligation"] for v in pr["violations"]]}
    viol = []
    os.makedirs(REPLAYS, exist_ok=True)
    seen_obl = set()
    known_ro = set(CONFIG.get("readonly_methods", []))
    unknown = sorted(set(v["name"] for v in pr["violations"] if known_ro and v["name"] not in known_ro))
    if unknown:
        # a `&self` method that mutates, but is neither a declared mutator nor one of the pinned read-only methods:
        # probably a NEW operation.  It is not under contract, so nothing can be claimed either way.
        raise Inconclusive("function(s) %s mutate the level through &self but are neither declared mutators nor known read-only methods (new operation not under contract?)" % unknown)
    for v in pr["violations"]:
        if v["obligation"] in seen_obl:
            continue
        seen_obl.add(v["obligation"])
        safe = re.sub(r"[^A-Za-z0-9_.-]+", "_", v["obligation"])
        rp = os.path.join(REPLAYS, "%s-%s.json" % (pid, safe))
        json.dump({"kind": "obligation", "property": pid, "label": v["obligation"], "repo_source": v["repo_source"], "verifier": "rustc borrow checker against purity/pshims.rs",
                   "verifier_output": v["rendered"], "note": "a `&self` method that is not a declared mutator reaches a mutating operation on its own state"}, open(rp, "w"), indent=1)
        viol.append({"label": v["obligation"], "replay": rp, "confirmed": False, "detail": [v["message"] + " @ " + v["repo_source"]]})
    return viol, n_ro, pcov


def check_property(pid, tier, seed):
    global _THOROUGH, GEN
    _THOROUGH = (tier == "thorough")
    # generated Verus files go to a directory of their own per property, so that checks of different properties that
    # share a unit can run at the same time without overwriting each other's files
    GEN = os.path.join(WORK, "gen", pid)
    t0 = time.time()
    cfg = CONFIG["properties"][pid]
    os.makedirs(REPLAYS, exist_ok=True)
    os.makedirs(EVID, exist_ok=True)
    ev = {"property_id": pid, "tier": tier, "seed": seed, "level": "proof",
          "coverage": {}, "assumptions": list(CONFIG.get("trusted_base", [])) + list(cfg.get("assumptions", [])),
          "wall_s": 0.0, "violations": 0}
    cov = ev["coverage"]
    out_lines = []
    purity_viol, purity_n, purity_cov = [], 0, None
    try:
        ensure_replay_bin()
        surface_check()
        purity_viol, purity_n, purity_cov = run_purity(pid, cfg)
        import concurrent.futures
        pool = concurrent.futures.ThreadPoolExecutor(max_workers=8)
        canary_futs = {u: pool.submit(canary_unit, u) for u in cfg["units"]}
        # basis units: units that prove what this property's unit only ASSUMES about shared structure (the CONC shims assume
        # `a map entry carries its key`, which is keys_ok of the SEQ queue contracts); they are re-verified in the same run
        # and any failure there makes this property undecided
        basis_units = [u for u in cfg.get("basis_units", []) if u not in cfg["units"]]
        results = [f.result() for f in [pool.submit(verify_unit, u) for u in list(cfg["units"]) + basis_units]]
        # ---- obligations
        relevant_fail = []
        labelled = []
        fn_rows = []
        smt_ms = 0
        functions_under_contract = []
        for r in results:
            meta = r["meta"]
            for name, lab in meta["labels"].items():
                fnprops = next((f["props"] for f in meta["functions"] if f["id"] == lab["fn"]), [])
                props = lab["props"] or fnprops
                if pid in props:
                    labelled.append((r["unit"], name))
            for f in r["failures"]:
                if pid in f["props"]:
                    relevant_fail.append(f)
            tm = r["res"]["json"].get("times-ms", {})
            smt_ms += tm.get("smt", {}).get("smt-run", 0)
            names_for_pid = set()
            for fn in meta["functions"]:
                if pid in fn["props"]:
                    names_for_pid.add(fn["name"])
            # renamed trait methods
            for fn in meta["functions"]:
                if pid in fn["props"] and fn.get("gen_name"):
                    names_for_pid.add(fn["gen_name"])
            for mod in tm.get("smt", {}).get("smt-run-module-times", []):
                for fb in mod.get("function-breakdown", []):
                    short = fb["function"].split("::")[-1]
                    is_lemma = fb.get("mode:") == "proof"
                    if is_lemma or short in names_for_pid:
                        fn_rows.append((r["unit"], fb["function"], fb.get("success"), fb.get("time-micros"), fb.get("rlimit")))
            for fn in meta["functions"]:
                if pid in fn["props"]:
                    functions_under_contract.append({"fn": fn["id"], "repo": "%s:%d-%d" % (fn["file"], fn["line_start"], fn["line_end"]),
                                                     "sha256": fn["sha256"][:16], "unit": r["unit"]})
        lenient_units = [r for r in results if r.get("lenient")]
        if lenient_units:
            cov["lost_anchors"] = [{"unit": r["unit"], "reason": r["lenient"]["reason"], "dropped_hints": r["lenient"]["dropped"],
                                    "dropped_rewrites": r["lenient"]["dropped_rewrites"]} for r in lenient_units]
            # a failed obligation is UNDECIDED only if proof hints / invariants of its own function were dropped;
            # a rewrite rule that no longer applies leaves the real code verbatim, so the verdict stands
            hinted = set()
            for r in lenient_units:
                for d in r["lenient"]["dropped"]:
                    # entries are "<fn id>: <what>"; a function id may itself contain ": " (`impl<T: Clone> ...`)
                    fids = sorted((f["id"] for f in r["meta"]["functions"]), key=len, reverse=True)
                    hit = next((fid for fid in fids if d == fid or d.startswith(fid + ": ")), None)
                    hinted.add(hit if hit else (d.split(": ")[0] if ": " in d else d))
            undecided = [f for f in relevant_fail if (f["fn"] or "\0") in hinted]
            if undecided:
                # undecided obligations: only a refutation that replays on the real code counts
                w = find_witness(pid)
                if not w:
                    raise Inconclusive("proof hints lost their anchors (%s); %d obligation(s) undecided and no concrete failing input found: %s" %
                                       ("; ".join(r["lenient"]["reason"] for r in lenient_units)[:300], len(undecided), ", ".join(sorted(set(f["label"] for f in undecided))[:4])))
        stubbed_rel = []
        for r in results:
            if r.get("stubbed"):
                for fid in r["stubbed"]["functions"]:
                    # conservative: the contract of a stubbed function is an unchecked assumption of this run, and any
                    # function of the unit may rely on it -> every property served by the unit is affected
                    stubbed_rel.append((fid, r["stubbed"]["reason"]))
        if stubbed_rel:
            cov["functions_not_verified_in_this_run"] = [{"fn": f, "reason": why[:300]} for (f, why) in stubbed_rel]
            decided = [f for f in relevant_fail if (f["fn"] or "") not in [x[0] for x in stubbed_rel]]
            if not decided:
                raise Inconclusive("function(s) %s could not be processed by the verifier (%s); nothing else failed" % ([x[0] for x in stubbed_rel], stubbed_rel[0][1][:200]))
        # ---- modular basis: a failed clause that carries only OTHER properties' labels still sits in the contract of a
        # function this property's proofs call (the function lists this property) - the callers were verified against
        # that contract, so this property's proof rests on a clause that does not hold: undecided, unless refuted
        if not relevant_fail:
            basis_fail = []
            for r in results:
                fprops = {f["id"]: f["props"] for f in r["meta"]["functions"]}
                # functions this property's proofs may rely on: those that list it, and everything they (transitively)
                # call inside the unit (call graph read off the generated file by name: an over-approximation)
                reach = call_closure(r["meta"], r["rs"], [f["id"] for f in r["meta"]["functions"] if pid in f["props"]])
                for f in r["failures"]:
                    if pid in f["props"]:
                        continue
                    # a failure outside every extracted function is a lemma / spec-level failure of the sidecar: callers
                    # assume the lemma's statement, so every property served by the unit is affected (conservative)
                    if r["unit"] in basis_units or not f["fn"] or f["fn"] not in fprops or f["fn"] in reach or pid in fprops.get(f["fn"], []):
                        basis_fail.append(f)
            if basis_fail:
                cov["failed_clauses_of_other_properties_in_functions_this_proof_relies_on"] = sorted(set("%s (%s)" % (f["label"], ",".join(f["props"])) for f in basis_fail))
                raise Inconclusive("the proof of %s is modular: it relies on the contract of %s, and a clause of that contract failed (%s, labelled for %s); undecided for %s" %
                                   (pid, sorted(set((f["fn"] or "a lemma of the sidecar") for f in basis_fail))[:3], sorted(set(f["label"] for f in basis_fail))[:3], sorted(set(p for f in basis_fail for p in f["props"])), pid))
        failed_labels = set(f["label"] for f in relevant_fail)
        # body obligations: one per verus-checked function (exec fn or lemma) in the units
        body_obl = [(u, fnname) for (u, fnname, ok, _, _) in fn_rows]
        failed_fns_verus = set((u, fnname) for (u, fnname, ok, _, _) in fn_rows if not ok)
        # a verus function that failed only because of clauses of *other* properties is not ours:
        # attribute body failures through `relevant_fail` (unlabelled ones) instead
        unl_fail = [f for f in relevant_fail if f["label"] not in [l for (_, l) in labelled]]
        obligations = len(labelled) + len(body_obl)
        discharged = len([1 for (_, l) in labelled if l not in failed_labels]) + len(body_obl) - len(set(f["fn"] for f in unl_fail))
        cov["obligations"] = obligations
        cov["discharged"] = discharged
        cov["checker_cmd"] = "; ".join(r["res"]["cmd"] + "  (in .work/gen/<property>, file regenerated from /repo by tools/extract.py)" for r in results)
        cov["back_end"] = "Verus %s / Z3 (bundled)" % (results[0]["res"]["json"].get("verus", {}).get("version", "?"))
        cov["solver_time_ms"] = smt_ms
        cov["functions_under_contract"] = functions_under_contract
        cov["labelled_obligations"] = [{"unit": u, "obligation": l, "status": "failed" if l in failed_labels else "discharged"} for (u, l) in labelled]
        cov["verus_functions_checked"] = len(body_obl)
        cov["samples"] = cov["labelled_obligations"][:12]
        cov["rewrite_rule_applications"] = {r["unit"]: r["meta"]["rewrite_counts"] for r in results}
        cov["assumption_scan"] = {r["unit"]: scan_assumptions(r["rs"]) for r in results}
        cov["trusted_base"] = list(CONFIG.get("trusted_base", [])) + list(cfg.get("assumptions", []))
        cov["verus_results"] = {r["unit"]: r["res"]["json"].get("verification-results", {}) for r in results}
        # allow-list of assumption counts
        for r in results:
            exp = CONFIG["units"][r["unit"]].get("assumption_counts")
            got = cov["assumption_scan"][r["unit"]]
            if r.get("stubbed"):
                continue     # the stubs of this run are listed under functions_not_verified_in_this_run
            if exp is not None and got != exp:
                raise Inconclusive("assumption scan of unit %s differs from the committed allow-list: %s vs %s" % (r["unit"], got, exp))
        # ---- frame / purity obligations decided by the borrow checker (C07)
        cov["obligations"] += purity_n
        cov["discharged"] += purity_n - len(set(v["label"] for v in purity_viol))
        obligations = cov["obligations"]
        discharged = cov["discharged"]
        if purity_cov:
            cov["purity"] = purity_cov
            cov["checker_cmd"] += "; " + purity_cov["checker_cmd"]
        # ---- vacuity canary (only meaningful when the claim is "everything discharged")
        if not relevant_fail:
            can = {}
            for u in cfg["units"]:
                try:
                    can[u] = canary_futs[u].result()
                except Inconclusive as ce:
                    if any(r["unit"] == u and (r.get("lenient") or r.get("stubbed")) for r in results):
                        can[u] = {"skipped": "canary file could not be processed after lost anchors / stubbing: %s" % str(ce)[:200], "vacuous": []}
                        continue
                    raise
                if can[u]["vacuous"]:
                    raise Inconclusive("vacuity guard: `ensures false` verified for %s in unit %s (contradictory precondition or shim?)" % (can[u]["vacuous"], u))
            cov["vacuity_canary"] = can

        # ---- known findings & fixed witnesses
        known = load_known()
        kf_rows = []
        for k in known.get("open", []):
            if k["property"] != pid:
                continue
            wpath = os.path.join(ROOT, k["witness"])
            rc, lines, err = run_replay(wpath)
            hit = [l for l in lines if ("clause=" + k["expect_clause"]) in l]
            kf_rows.append({"id": k["id"], "clause": k["clause"], "witness": k["witness"], "still_violates": bool(hit), "replay": lines[:3]})
            if hit:
                out_lines.append("KNOWN-FINDING: property=%s %s [%s] witness=%s" % (pid, k["what"], k["id"], k["witness"]))
        cov["known_finding_obligations"] = kf_rows
        violations = []
        for k in known.get("fixed", []):
            if k["property"] != pid or not k.get("witness"):
                continue
            wpath = os.path.join(ROOT, k["witness"])
            rc, lines, err = run_replay(wpath)
            if rc == 1:
                violations.append({"label": "regression of fixed finding %s" % k["id"], "replay": wpath, "confirmed": True, "detail": lines[:3]})
            elif rc != 0:
                raise Inconclusive("replay of fixed witness %s failed: %s" % (k["id"], err[-300:]))
        cov["fixed_witnesses_replayed"] = len([k for k in known.get("fixed", []) if k["property"] == pid and k.get("witness")])

        # ---- violations
        proved_by_kani = []
        for f in relevant_fail:
            v = report_failure(pid, f, cfg)
            (proved_by_kani if v.get("kani_proved") else violations).append(v)
        violations.extend(purity_viol)
        if proved_by_kani and not violations:
            cov["clauses_verus_could_not_discharge_but_kani_proves"] = [{"label": v["label"], "harnesses": v["kani_proved"]} for v in proved_by_kani]
            raise Inconclusive("Verus could not discharge %s, but the complete Kani harnesses prove the same clauses on the compiled crate: a gap of the Verus proof after a restructuring, not a violation" % sorted(set(v["label"] for v in proved_by_kani))[:4])
        # ---- cheap cross-check on every run: the witness library and the sub-second finders are executed on the real
        # library although every obligation may have been discharged; a hit is a violation that replays on the real code
        # (this is what notices a change in a part the contracts only ASSUME, e.g. what the package checksum covers)
        if not violations:
            w = find_witness(pid, deep=False)
            cov["cheap_cross_check_against_real_code"] = {"finders": "witness library" + (", fault enumeration on the serialized package" if pid == "C09" else "") + (", executable next() contract at boundary counters" if pid == "C14" else "") + (", executable MatchResult contract at boundary quantities" if pid == "C02" else "") + (", 400 pseudo-random boundary-biased contents through the assumed text / JSON / level-data / package legs (seed VERIF_SEED)" if pid in ("C10", "C19") else "") + (", forced-schedule sweep through the pause hook (amend: find | match | remove..push; 12 order kinds x 7 targets x 9 match sizes)" if pid in ("C03", "C12") else ""),
                                                          "refutation_found": bool(w), "stats": _WITNESS_STATS.get(pid)}
            if w:
                rp = os.path.join(REPLAYS, "%s-crosscheck.json" % pid)
                rj = dict(w[0]); rj.update({"property": pid, "label": "cross-check refutation although all obligations were discharged", "source": w[2]})
                json.dump(rj, open(rp, "w"), indent=1)
                rc2, lines2, err2 = run_replay(rp, timeout_s=60)
                if rc2 == 1:
                    violations.append({"label": "cross-check: %s" % w[1][0][:200], "replay": rp, "confirmed": True, "detail": w[1][:3]})
        # ---- thorough extras
        if tier == "thorough":
            cov["bounded_checks"] = []
            kres = []
            for h in cfg.get("kani", []):
                kr = kani_run(h, playback=True)
                bounded = h in ("match_result_add_transaction",)
                kres.append({"harness": h, "status": kr["status"], "checks": kr["checks"], "wall_s": round(kr["wall"], 1),
                             "complete": not bounded,
                             "note": ("full-domain symbolic quantities; #[kani::unwind(3)] bounds the growth loop of the one-element Vec push (unwinding assertions on): bounded in that sense only, not counted as proved" if bounded
                                      else "loop-free, full-domain symbolic inputs: complete for the compiled crate")})
                if bounded:
                    cov["bounded_checks"].append({"harness": h, "bound": "unwind 3", "status": kr["status"]})
                if kr["status"] == "FAILED":
                    rp = None
                    if kr["vecs"] and h in KANI_INPUTS:
                        rj = decode_match_against(h, kr["vecs"])
                        if rj:
                            rj.update({"property": pid, "label": ",".join(kr["failed_checks"]), "source": "kani " + h})
                            rp = os.path.join(REPLAYS, "%s-kani-%s.json" % (pid, h))
                            json.dump(rj, open(rp, "w"), indent=1)
                            rc, lines, err = run_replay(rp)
                            violations.append({"label": "kani:%s:%s" % (h, ",".join(kr["failed_checks"])), "replay": rp, "confirmed": rc == 1, "detail": lines[:3]})
                    if rp is None:
                        rp = os.path.join(REPLAYS, "%s-kani-%s.json" % (pid, h))
                        json.dump({"kind": "obligation", "property": pid, "label": "kani:" + h, "verifier_output": kr["tail"]}, open(rp, "w"), indent=1)
                        violations.append({"label": "kani:%s" % h, "replay": rp, "confirmed": False, "detail": kr["failed_checks"]})
                elif kr["status"] == "ERROR":
                    raise Inconclusive("kani harness %s did not run: %s" % (h, kr["tail"][-400:]))
            cov["kani_harnesses"] = kres
            # cross-check of the contracts (and of the trusted shims) against the REAL library: the refutation finders are
            # run although every obligation was discharged; a hit is a property violation that replays on the real code
            # and, at the same time, evidence that something in the trusted base is wrong
            w = find_witness(pid)
            cov["cross_check_against_real_code"] = {"finders": "witness library, bounded search / fault enumeration / executable contract forms (see DESIGN 16)",
                                                    "refutation_found": bool(w), "stats": _WITNESS_STATS.get(pid)}
            if w:
                rp = os.path.join(REPLAYS, "%s-crosscheck.json" % pid)
                rj = dict(w[0]); rj.update({"property": pid, "label": "cross-check refutation although all obligations were discharged", "source": w[2]})
                json.dump(rj, open(rp, "w"), indent=1)
                rc2, lines2, err2 = run_replay(rp, timeout_s=60)
                if rc2 == 1:
                    violations.append({"label": "cross-check: %s" % w[1][0][:200], "replay": rp, "confirmed": True, "detail": w[1][:3]})
            # brittleness pass: half resource limit; reported, never a failure
            brittle = {}
            for r in results:
                rr = run_verus(r["rs"], ["--rlimit", "5"])
                fl, tl = classify(rr, r["meta"], r["unit"])
                brittle[r["unit"]] = sorted(set(f["label"] for f in fl if f["label"] not in failed_labels))
            cov["brittle_at_half_rlimit"] = brittle

        # dedupe violations by replay path
        seen = set()
        uniq = []
        for v in violations:
            if v["replay"] in seen:
                continue
            seen.add(v["replay"])
            uniq.append(v)
        for v in uniq:
            tail = "" if v["confirmed"] else " no-failing-input-found"
            out_lines.append("VIOLATION property=%s replay=%s%s" % (pid, v["replay"], tail))
            out_lines.append("  obligation: %s" % v["label"])
            for d in v.get("detail", [])[:2]:
                out_lines.append("  " + str(d)[:400])
        ev["violations"] = len(uniq)
        cov["violations"] = [{"obligation": v["label"], "replay": v["replay"], "counterexample_confirmed_on_real_code": v["confirmed"]} for v in uniq]
        if not uniq and discharged != obligations:
            # cannot happen unless attribution is inconsistent; be conservative
            raise Inconclusive("internal: discharged %d != obligations %d without a reported violation" % (discharged, obligations))
        ev["wall_s"] = round(time.time() - t0, 2)
        json.dump(ev, open(os.path.join(EVID, pid + ".json"), "w"), indent=1)
        for l in out_lines:
            print(l)
        if uniq:
            return 1
        print("OK property=%s obligations=%d discharged=%d solver_ms=%d wall_s=%.1f" % (pid, obligations, discharged, smt_ms, ev["wall_s"]))
        return 0
    except Inconclusive as e:
        # the verifier could not decide (unsupported construct, lost anchor, resource limit).  Only a concrete
        # refutation that replays on the real library may still be reported.
        if purity_viol:
            ev["violations"] = len(purity_viol)
            ev["level"] = "other"
            ev["coverage"] = {"explanation": "Verus INCONCLUSIVE (%s); the frame (purity) obligations are decided by the borrow checker and failed" % e,
                              "violations": [{"obligation": v["label"], "replay": v["replay"], "counterexample_confirmed_on_real_code": False} for v in purity_viol],
                              "purity": purity_cov, "partial": cov}
            ev["wall_s"] = round(time.time() - t0, 2)
            json.dump(ev, open(os.path.join(EVID, pid + ".json"), "w"), indent=1)
            for v in purity_viol:
                print("VIOLATION property=%s replay=%s no-failing-input-found" % (pid, v["replay"]))
                print("  obligation: %s" % v["label"])
                for d in v["detail"][:1]:
                    print("  " + d[:300])
            return 1
        w = None
        try:
            w = find_witness(pid)
        except Exception:
            w = None
        if w:
            rp = os.path.join(REPLAYS, "%s-refutation.json" % pid)
            rj = dict(w[0])
            rj.update({"property": pid, "label": "concrete refutation (verifier inconclusive: %s)" % str(e)[:300], "source": w[2]})
            json.dump(rj, open(rp, "w"), indent=1)
            rc2, lines2, err2 = run_replay(rp, timeout_s=60)
            if rc2 == 1:
                ev["violations"] = 1
                ev["level"] = "other"
                ev["coverage"] = {"explanation": "verifier INCONCLUSIVE (%s); a concrete failing input was found by %s and replays on the real library" % (e, w[2]),
                                  "violations": [{"obligation": l[:300], "replay": rp, "counterexample_confirmed_on_real_code": True} for l in w[1][:3]], "partial": cov}
                ev["wall_s"] = round(time.time() - t0, 2)
                json.dump(ev, open(os.path.join(EVID, pid + ".json"), "w"), indent=1)
                print("VIOLATION property=%s replay=%s" % (pid, rp))
                print("  verifier inconclusive (%s)" % str(e)[:200])
                for l in w[1][:2]:
                    print("  " + l[:400])
                return 1
        ev["level"] = "other"
        ev["coverage"] = {"explanation": "INCONCLUSIVE: %s" % e, "partial": cov}
        ev["wall_s"] = round(time.time() - t0, 2)
        json.dump(ev, open(os.path.join(EVID, pid + ".json"), "w"), indent=1)
        print("INCONCLUSIVE property=%s %s" % (pid, e))
        return 2


_WITNESS_CACHE = {}
_WITNESS_STATS = {}


_THOROUGH = False


def env_seed():
    """VERIF_SEED as a 64-bit number (any string is accepted: a non-numeric value is hashed)"""
    v = (os.environ.get("VERIF_SEED") or "0").strip()
    try:
        return int(v, 0) % (1 << 64)
    except ValueError:
        return int(hashlib.sha256(v.encode()).hexdigest()[:16], 16)


def call_closure(meta, rs_path, roots):
    """ids of the unit's extracted functions reachable from `roots` through calls.  Calls are read off the generated
    file by name - `Type::name(`, `Self::name(` inside the same impl, `.name(` on any receiver - an over-approximation"""
    try:
        lines = open(rs_path).read().split("\n")
    except OSError:
        return set(roots)
    fns = meta["functions"]
    def tyname(f):
        h = f["impl"]
        h = h.split(" for ")[-1] if " for " in h else h
        h = re.sub(r"^impl(<[^>]*>)?\s*", "", h)
        return re.split(r"[<\s]", h.strip())[0]
    body = {f["id"]: "\n".join(lines[f["gen_start"] - 1:f["gen_end"]]) for f in fns}
    calls = {}
    for f in fns:
        hit = set()
        for g in fns:
            if g["id"] == f["id"]:
                continue
            nm = re.escape(g.get("gen_name") or g["name"])
            pats = [r"(?<![A-Za-z0-9_])%s::%s\s*\(" % (re.escape(tyname(g)), nm), r"\.%s\s*\(" % nm]
            if tyname(g) == tyname(f):
                pats.append(r"(?<![A-Za-z0-9_])Self::%s\s*\(" % nm)
            if any(re.search(p, body[f["id"]]) for p in pats):
                hit.add(g["id"])
        calls[f["id"]] = hit
    seen, todo = set(roots), list(roots)
    while todo:
        x = todo.pop()
        for y in calls.get(x, ()):
            if y not in seen:
                seen.add(y); todo.append(y)
    return seen


def find_witness(pid, deep=True):
    """a concrete history / schedule that violates property pid on the REAL library (excluding the clauses of
    open known findings): first the committed witness library and the cheap finders (fault enumeration on the
    package, executable next() contract), then - only if `deep` - a bounded search in the replay binary."""
    if (pid, deep) in _WITNESS_CACHE:
        return _WITNESS_CACHE[(pid, deep)]
    if not deep and (pid, True) in _WITNESS_CACHE and _WITNESS_CACHE[(pid, True)]:
        return _WITNESS_CACHE[(pid, True)]
    known = load_known()
    excl = sorted(set(k["expect_clause"] for k in known.get("open", []) if k["property"] == pid))
    res = None
    wdir = os.path.join(ROOT, "witnesses")
    if os.path.isdir(wdir):
        for w in sorted(os.listdir(wdir)):
            if not w.endswith(".json"):
                continue
            wp = os.path.join(wdir, w)
            rc, lines, err = run_replay(wp, timeout_s=10)
            hits = [l for l in lines if ("property=%s " % pid) in l and not any(("clause=%s " % c) in l for c in excl)]
            # clauses that are the executable form of the proved contracts count only together with the ideal clause
            need = {"C04": ["match_order.time_priority"], "C19": ["pop.fifo_order"]}.get(pid, [])
            if need and not all(any(("clause=%s " % q) in l for l in lines) for q in need):
                hits = [h for h in hits if "follows_ticket_order" not in h]
            if rc == 1 and hits:
                res = (json.load(open(wp)), hits, "witness library %s" % w)
                break
    if res is None and pid == "C09":
        sp = os.path.join(REPLAYS, "search-%s.json" % pid)
        json.dump({"kind": "package_faults"}, open(sp, "w"))
        rc, lines, err = run_replay(sp, timeout_s=60)
        _WITNESS_STATS[pid] = (err or "").strip().split("\n")[-1][:200]
        hits = [l for l in lines if l.startswith("REPLAY-VIOLATION") and "property=C09 " in l]
        if rc == 1 and hits:
            res = ({"kind": "package_faults"}, hits, "fault enumeration on the serialized package (every single-byte fault, truncation, checksum-prefix pairs)")
    if res is None and pid in ("C03", "C12"):
        # forced schedule amend(find) | match | amend(remove..push) over a grid of order kinds and quantities (sub-second)
        sp = os.path.join(REPLAYS, "search-%s.json" % pid)
        json.dump({"kind": "amend_race_sweep", "property": pid}, open(sp, "w"))
        rc, lines, err = run_replay(sp, timeout_s=60)
        _WITNESS_STATS[pid] = (err or "").strip().split("\n")[-1][:200]
        found = [l for l in lines if l.startswith("REPLAY-FOUND ")]
        hits = [l for l in lines if l.startswith("REPLAY-VIOLATION") and ("property=%s " % pid) in l and not any(("clause=%s " % c) in l for c in excl)]
        if rc == 1 and found and hits:
            res = (json.loads(found[0][len("REPLAY-FOUND "):]), hits, "forced-schedule sweep through the pause hook (12 order kinds x 7 amendment targets x 9 racing match sizes)")
    if res is None and pid == "C02":
        sp = os.path.join(REPLAYS, "search-%s-mr.json" % pid)
        json.dump({"kind": "match_result_contract"}, open(sp, "w"))
        rc, lines, err = run_replay(sp, timeout_s=60)
        hits = [l for l in lines if l.startswith("REPLAY-VIOLATION") and "property=C02 " in l]
        if rc == 1 and hits:
            res = ({"kind": "match_result_contract"}, hits, "executable form of the MatchResult contract at boundary quantities")
    if res is None and pid in ("C10", "C19"):
        # assumed legs (text / JSON / level data / package forms): pseudo-random boundary-biased contents, deterministic per seed
        sp = os.path.join(REPLAYS, "search-%s-legs.json" % pid)
        seed = env_seed()
        json.dump({"kind": "legs_fuzz", "seed": seed, "rounds": (50000 if _THOROUGH else 5000) if deep else 400}, open(sp, "w"))
        rc, lines, err = run_replay(sp, timeout_s=120)
        _WITNESS_STATS[pid] = (err or "").strip().split("\n")[-1][:200]
        found = [l for l in lines if l.startswith("REPLAY-FOUND ")]
        hits = [l for l in lines if l.startswith("REPLAY-VIOLATION") and ("property=%s " % pid) in l and not any(("clause=%s " % c) in l for c in excl)]
        if rc == 1 and found and hits:
            fj = json.loads(found[0][len("REPLAY-FOUND "):])
            res = ({"kind": "legs_fuzz", "seed": fj["seed"], "rounds": fj["rounds"], "last_round_content": fj.get("last_round_content")}, hits, "pseudo-random boundary-biased level / queue contents through the assumed text, JSON, level-data and package legs")
    if res is None and pid == "C14":
        sp = os.path.join(REPLAYS, "search-%s.json" % pid)
        json.dump({"kind": "uuid_contract"}, open(sp, "w"))
        rc, lines, err = run_replay(sp, timeout_s=60)
        hits = [l for l in lines if l.startswith("REPLAY-VIOLATION") and "property=C14 " in l]
        if rc == 1 and hits:
            res = ({"kind": "uuid_contract"}, hits, "executable form of the next() contract at boundary counter values")
    if res is None and pid not in ("C09", "C14", "C03", "C12") and deep:
        sp = os.path.join(REPLAYS, "search-%s.json" % pid)
        # thorough tier: a larger budget and one more level of depth (bounded exploration, never counted as proof)
        q = {"kind": "search", "property": pid, "depth": 4, "budget_ms": 90000, "exclude": excl}
        if _THOROUGH:
            q.update({"sample_ms": 45000, "sample_depth": 7, "seed": env_seed()})
        # clauses that are the executable form of the PROVED contracts (not of the ideal property) count only
        # together with a violation of the ideal clause in the same history
        q["require"] = {"C04": ["match_order.time_priority"], "C19": ["pop.fifo_order"]}.get(pid, [])
        if pid == "C19":
            q.update({"target": "queue", "depth": 8 if _THOROUGH else 7, "budget_ms": 120000 if _THOROUGH else 90000, "sample_ms": 0})
        json.dump(q, open(sp, "w"))
        rc, lines, err = run_replay(sp, timeout_s=((q["budget_ms"] + q.get("sample_ms", 0)) // 1000) + 15)
        _WITNESS_STATS[pid] = (err or "").strip().split("\n")[-1][:200]
        found = [l for l in lines if l.startswith("REPLAY-FOUND ")]
        hits = [l for l in lines if l.startswith("REPLAY-VIOLATION") and ("property=%s " % pid) in l]
        if rc == 1 and found and hits:
            res = (json.loads(found[0][len("REPLAY-FOUND "):]), hits, "bounded search in the replay binary (level histories to depth 4 / queue histories to depth 7)")
    _WITNESS_CACHE[(pid, deep)] = res
    return res


def report_failure(pid, f, cfg):
    """turn a failed Verus obligation into a violation record; try to obtain a concrete failing input."""
    safe = re.sub(r"[^A-Za-z0-9_.-]+", "_", f["label"])[:120]
    rp = os.path.join(REPLAYS, "%s-%s.json" % (pid, safe))
    base = {"property": pid, "label": f["label"], "unit": f["unit"], "function": f["fn"], "kind_of_obligation": f["kind"],
            "repo_source": f["src"], "verifier": "verus", "verifier_output": f["rendered"]}
    # 1. Kani counterexample for loop-free contracts
    harnesses = list(cfg.get("kani_for", {}).get(f["fn"] or "", []))
    # try the harness of the variant the failed clause talks about first
    for key in ("iceberg", "reserve", "replenish"):
        if key in f["label"]:
            pref = "match_against_reserve" if key != "iceberg" else "match_against_iceberg"
            if pref in harnesses:
                harnesses.remove(pref)
                harnesses.insert(0, pref)
    kani_ok = []
    for h in harnesses:
        kr = kani_run(h, playback=True, timeout=900)
        if kr["status"] == "SUCCESS":
            kani_ok.append(h)
        if kr["status"] == "FAILED" and kr["vecs"] and h in KANI_INPUTS:
            rj = decode_match_against(h, kr["vecs"])
            if rj:
                rj.update(base)
                rj["source"] = "kani harness %s, failed checks %s" % (h, kr["failed_checks"])
                json.dump(rj, open(rp, "w"), indent=1)
                rc, lines, err = run_replay(rp)
                if rc == 1:
                    return {"label": f["label"], "replay": rp, "confirmed": True, "detail": lines[:3]}
    # the complete (loop-free, full-domain) Kani harnesses of this function assert the same clauses on the compiled crate:
    # if every one of them succeeds, the failed Verus obligation is a gap of the Verus proof (the code was restructured),
    # not a violation - undecided
    if harnesses and len(kani_ok) == len(harnesses) and f["label"].startswith("match_against."):
        return {"label": f["label"], "replay": None, "confirmed": False, "kani_proved": kani_ok,
                "detail": ["Verus could not discharge this clause, but the complete Kani harnesses %s prove it on the compiled crate" % kani_ok]}
    # 2. committed witness histories, then a bounded search (only used to attach a failing input)
    w = find_witness(pid)
    if w:
        rj = dict(w[0])
        rj.update(base)
        rj["source"] = w[2]
        json.dump(rj, open(rp, "w"), indent=1)
        rc, lines, err = run_replay(rp)
        if rc == 1:
            return {"label": f["label"], "replay": rp, "confirmed": True, "detail": w[1][:3]}
    base["kind"] = "obligation"
    base["note"] = "no concrete failing input was found by the verifier; the obligation passed on the unchanged tree and fails now"
    json.dump(base, open(rp, "w"), indent=1)
    return {"label": f["label"], "replay": rp, "confirmed": False, "detail": [f["msg"] + " @ " + str(f["src"])]}


def witness_is_known(pid, hits):
    """a library witness that only reproduces an *open known finding* is not a new failing input."""
    known = load_known()
    clauses = set(k["expect_clause"] for k in known.get("open", []) if k["property"] == pid)
    return all(any(("clause=" + c) in h for c in clauses) for h in hits) if clauses else False


def main(argv):
    if len(argv) >= 2 and argv[1] == "--setup":
        try:
            w = ensure_replay_bin()
            print("setup: replay binary built in %.1fs" % w)
            try:
                import purity as purity_mod
                pr = purity_mod.run(WORK)
                print("setup: purity crates checked in %.1fs (%d tool errors)" % (pr["wall_s"], len(pr["tool_errors"])))
            except Exception as ex:   # warming only
                print("setup: purity warm-up skipped (%s)" % ex)
            return 0
        except Inconclusive as e:
            print("setup failed: %s" % e)
            return 2
    if len(argv) >= 2 and argv[1] == "--pin":
        # record the current rewrite-rule application counts and assumption counts as the committed expectation
        cfgp = os.path.join(ROOT, "checks.json")
        cfg = json.load(open(cfgp))
        for u in cfg["units"]:
            cfg["units"][u].pop("rewrite_counts", None)
            cfg["units"][u].pop("assumption_counts", None)
        CONFIG["units"] = cfg["units"]
        for u in cfg["units"]:
            rs, meta = build_unit(u)
            cfg["units"][u]["rewrite_counts"] = meta["rewrite_counts"]
            cfg["units"][u]["assumption_counts"] = scan_assumptions(rs)
        import purity as purity_mod
        cfg["public_surface"] = purity_mod.public_surface()
        contracted = set()
        for u in cfg["units"]:
            rs, meta = build_unit(u)
            for fn in meta["functions"]:
                contracted.add("%s :: %s" % (fn["impl"], fn["name"]))
        cfg["contracted_functions"] = sorted(contracted)
        pr = purity_mod.run(WORK)
        cfg["readonly_methods"] = pr["readonly_methods_checked"]
        json.dump(cfg, open(cfgp, "w"), indent=1)
        print("pinned %d units, %d surface functions, %d read-only methods" % (len(cfg["units"]), len(cfg["public_surface"]), len(cfg["readonly_methods"])))
        return 0
    if len(argv) >= 3 and argv[1] == "--replay":
        try:
            ensure_replay_bin()
        except Inconclusive as e:
            print("INCONCLUSIVE %s" % e)
            return 2
        j = json.load(open(argv[2]))
        if j.get("kind") == "obligation":
            print("replay file names a failed obligation without a concrete input:")
            print("  property=%s obligation=%s source=%s" % (j.get("property"), j.get("label"), j.get("repo_source")))
            print(j.get("verifier_output", ""))
            # re-run the property's quick check to see whether the obligation still fails
            return check_property(j["property"], "quick", 0)
        rc, lines, err = run_replay(argv[2])
        for l in lines:
            print(l)
        if rc == 2:
            print(err)
        return rc
    tier = os.environ.get("VERIF_TIER", "quick")
    seed = env_seed()
    args = argv[1:]
    if "--tier" in args:
        i = args.index("--tier")
        tier = args[i + 1]
        del args[i:i + 2]
    if not args:
        print(__doc__)
        return 2
    pids = sorted(CONFIG["properties"]) if args[0] == "all" else [args[0]]
    worst = 0
    for pid in pids:
        if pid not in CONFIG["properties"]:
            print("unknown or unclaimed property %s" % pid)
            return 2
        rc = check_property(pid, tier, seed)
        if rc == 1 or (rc == 2 and worst == 0):
            worst = rc
    return worst


if __name__ == "__main__":
    sys.exit(main(sys.argv))
