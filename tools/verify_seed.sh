#!/bin/bash
ID="$1"; OUT=@RD@/$ID-out; WT=@RD@/$ID
export CARGO_TARGET_DIR=$WT/target CARGO_NET_OFFLINE=true
cd $WT || exit 2
git checkout -q -- . ; rm -f tests/seed_demo.rs
R=$OUT/verify.txt; : > $R
git apply --check $OUT/patch.diff 2>>$R || { echo "APPLY-FAIL" >> $R; exit 1; }
git apply $OUT/patch.diff
echo "## full suite with change" >> $R
cargo test --workspace --no-fail-fast --offline 2>&1 | grep -E "^test result|FAILED|error(\[|:)" >> $R
cp $OUT/seed_demo.rs tests/seed_demo.rs
printf '\n[[test]]\nname = "seed_demo"\npath = "tests/seed_demo.rs"\n' >> Cargo.toml
echo "## demo with change (expect failure)" >> $R
timeout 900 cargo test --offline --test seed_demo 2>&1 | grep -E "^test result|^test .* (ok|FAILED)|error(\[|:)" >> $R
git checkout -q -- src
echo "## demo without change (expect pass)" >> $R
timeout 900 cargo test --offline --test seed_demo 2>&1 | grep -E "^test result|^test .* (ok|FAILED)|error(\[|:)" >> $R
git checkout -q -- . ; rm -f tests/seed_demo.rs; rm -rf $WT/target
echo "DONE" >> $R
